package report

import (
	"encoding/json"
	"os"
)

// Finding is one entry of /verif/known_findings.json. The file is read-only at
// run time.
type Finding struct {
	ID        string          `json:"id"`
	Property  string          `json:"property"`
	Status    string          `json:"status"` // "open" | "fixed"
	Signature string          `json:"signature,omitempty"`
	Witness   json.RawMessage `json:"witness,omitempty"`
	WhatFails string          `json:"what_fails"`
	Commit    string          `json:"commit,omitempty"`
	Also      []string        `json:"also_excluded_in,omitempty"`
}

type findingsFile struct {
	Findings []Finding `json:"findings"`
}

// LoadFindings returns the entries of the known-findings file (none if absent).
func LoadFindings(path string) []Finding {
	raw, err := os.ReadFile(path)
	if err != nil {
		return nil
	}
	var ff findingsFile
	if err := json.Unmarshal(raw, &ff); err != nil {
		panic("known_findings.json does not parse: " + err.Error())
	}
	return ff.Findings
}

// Open returns the open findings that concern a property (its own and those of
// other properties that list it under also_excluded_in).
func Open(all []Finding, property string) []Finding {
	var out []Finding
	for _, f := range all {
		if f.Status != "open" {
			continue
		}
		if f.Property == property {
			out = append(out, f)
			continue
		}
		for _, a := range f.Also {
			if a == property {
				out = append(out, f)
			}
		}
	}
	return out
}
