package report

import (
	"os"
	"sync"
	"time"
)

var (
	fuzzMu    sync.Mutex
	fuzzStats = map[string]*Stats{}
)

// FuzzStats returns the per-process collector of a native fuzz target. Fuzz workers
// are separate processes, so each one flushes its own statistics file every few
// seconds (shard id = pid); the runner merges them.
func FuzzStats(property string) *Stats {
	fuzzMu.Lock()
	defer fuzzMu.Unlock()
	if st, ok := fuzzStats[property]; ok {
		return st
	}
	cfg := Load()
	cfg.Shard = 100000 + os.Getpid()
	st := New(property, cfg)
	st.Stream("native-fuzz", false, "coverage-guided go test -fuzz (not seedable; the saved failing input is the reproducible unit)")
	fuzzStats[property] = st
	go func() {
		for {
			time.Sleep(3 * time.Second)
			st.Flush()
		}
	}()
	return st
}
