package report

import (
	"encoding/json"
	"fmt"
	"os"
	"testing"
)

// Replayers maps a property id to the function that decodes a stored case and
// runs the property's pure check on it (bypassing the PBT library).
var Replayers = map[string]func(raw json.RawMessage) *Failure{}

// RunReplay re-executes the stored violation named by VERIF_REPLAY.
func RunReplay(t *testing.T) {
	cfg := Load()
	if cfg.Replay == "" {
		t.Skip("no VERIF_REPLAY")
	}
	raw, err := os.ReadFile(cfg.Replay)
	if err != nil {
		t.Fatalf("read replay: %v", err)
	}
	var v Violation
	if err := json.Unmarshal(raw, &v); err != nil {
		t.Fatalf("parse replay: %v", err)
	}
	fn, ok := Replayers[v.Property]
	if !ok {
		t.Skipf("property %s is not in this package", v.Property)
	}
	if f := fn(v.Case); f != nil {
		fmt.Printf("REPLAY-FAILS property=%s sub=%s\n  why: %s\n", v.Property, f.Sub, f.Msg)
		t.Fail()
		return
	}
	fmt.Printf("REPLAY-PASSES property=%s\n", v.Property)
}

// Regress replays every stored regression case of a property; any failure is a
// violation (a fixed finding that came back, or a past shrunk failure).
func Regress(st *Stats, property string) {
	dir := os.Getenv("VERIF_REGRESS")
	if dir == "" {
		dir = "/verif/regress"
	}
	ents, _ := os.ReadDir(dir)
	st.Stream("regress", false, "stored regression cases")
	for _, e := range ents {
		name := e.Name()
		if len(name) < 4 || name[:3] != property {
			continue
		}
		raw, err := os.ReadFile(dir + "/" + name)
		if err != nil {
			continue
		}
		var v Violation
		if json.Unmarshal(raw, &v) != nil || v.Property != property {
			continue
		}
		st.Eval()
		if f := Replayers[property](v.Case); f != nil {
			var c any
			_ = json.Unmarshal(v.Case, &c)
			st.Violate("regress:"+name, c, f)
		}
	}
}

// ActiveFindings replays the witness of each open finding that concerns the
// property. Findings whose witness still fails are active: they are announced
// (for the owning property) and their signature is excluded; the others are
// switched off for this run so that a partial repair is noticed.
func ActiveFindings(st *Stats, property string) map[string]bool {
	active := map[string]bool{}
	for _, f := range Open(LoadFindings(st.Cfg().Findings), property) {
		owner, ok := Replayers[f.Property]
		if !ok || len(f.Witness) == 0 {
			active[f.Signature] = true // witness lives in another package: trust the listing
			continue
		}
		if fail := owner(f.Witness); fail != nil {
			active[f.Signature] = true
			if f.Property == property {
				st.Known(f.ID, f.WhatFails)
			}
		} else {
			st.Note("finding %s: witness no longer fails; its exclusion is off for this run", f.ID)
		}
	}
	return active
}
