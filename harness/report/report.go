// Package report holds the plumbing shared by every property check: run
// configuration (tier, seed, shard), measured statistics for the evidence file,
// violation capture (smallest failing case per sub-check -> replay file) and the
// known-findings protocol.
package report

import (
	"encoding/binary"
	"encoding/json"
	"flag"
	"fmt"
	"hash/fnv"
	"os"
	"path/filepath"
	"sort"
	"strconv"
	"sync"
	"testing"
	"time"

	"pgregory.net/rapid"
)

// Config is read from the environment set by /verif/check.
type Config struct {
	Tier     string // quick | thorough
	Seed     uint64 // VERIF_SEED (remapped so that 0 is never handed to rapid)
	Shard    int
	NShards  int
	OutDir   string // where stats / replay files of this process go
	Findings string // path of known_findings.json
	Replay   string // non-empty: replay this file and do nothing else
	Scale    float64
}

func envInt(k string, d int) int {
	if v, err := strconv.Atoi(os.Getenv(k)); err == nil {
		return v
	}
	return d
}

// Load reads the configuration.
func Load() Config {
	c := Config{
		Tier:     os.Getenv("VERIF_TIER"),
		Shard:    envInt("VERIF_SHARD", 0),
		NShards:  envInt("VERIF_NSHARDS", 1),
		OutDir:   os.Getenv("VERIF_OUT"),
		Findings: os.Getenv("VERIF_FINDINGS"),
		Replay:   os.Getenv("VERIF_REPLAY"),
		Scale:    1,
	}
	if c.Tier != "thorough" {
		c.Tier = "quick"
	}
	s, _ := strconv.ParseUint(os.Getenv("VERIF_SEED"), 10, 64)
	c.Seed = s
	if f, err := strconv.ParseFloat(os.Getenv("VERIF_SCALE"), 64); err == nil && f > 0 {
		c.Scale = f
	}
	if c.OutDir == "" {
		c.OutDir = filepath.Join(os.TempDir(), "verif-out")
	}
	if c.Findings == "" {
		c.Findings = "/verif/known_findings.json"
	}
	_ = os.MkdirAll(c.OutDir, 0o755)
	return c
}

// Thorough reports whether the thorough tier is running.
func (c Config) Thorough() bool { return c.Tier == "thorough" }

// N picks a case count per tier, scaled by VERIF_SCALE, divided over shards.
func (c Config) N(quick, thorough int) int {
	n := quick
	if c.Thorough() {
		n = thorough
	}
	n = int(float64(n) * c.Scale)
	if c.NShards > 1 {
		n = (n + c.NShards - 1) / c.NShards
	}
	if n < 1 {
		n = 1
	}
	return n
}

// RapidSeed is the seed handed to rapid for a named stream: never 0 (0 means
// "random" to rapid), distinct per shard and per stream.
func (c Config) RapidSeed(stream string) uint64 {
	h := fnv.New64a()
	fmt.Fprintf(h, "%d/%d/%s", c.Seed, c.Shard, stream)
	v := h.Sum64()
	if v == 0 {
		v = 1
	}
	return v
}

// Failure is what a property's pure Check function returns on a violation.
type Failure struct {
	Sub string `json:"sub"` // which clause of the property failed
	Msg string `json:"msg"` // observed vs expected
}

func (f *Failure) Error() string { return f.Sub + ": " + f.Msg }

// Failf builds a Failure.
func Failf(sub, format string, a ...any) *Failure {
	return &Failure{Sub: sub, Msg: fmt.Sprintf(format, a...)}
}

// Violation is one captured failing case.
type Violation struct {
	Property string          `json:"property"`
	Stream   string          `json:"stream"`
	Sub      string          `json:"sub"`
	Msg      string          `json:"msg"`
	Case     json.RawMessage `json:"case"`
	Tier     string          `json:"tier"`
	Seed     uint64          `json:"seed"`
}

// StreamInfo describes one generator stream of a run.
type StreamInfo struct {
	Name        string `json:"name"`
	Evaluations int64  `json:"evaluations"`
	Exhaustive  bool   `json:"exhaustive"`
	Space       string `json:"space,omitempty"`
	Requested   int64  `json:"requested,omitempty"`
}

// Stats collects everything the evidence file reports. Safe for concurrent use.
type Stats struct {
	mu          sync.Mutex
	Property    string
	cfg         Config
	start       time.Time
	evaluations int64
	nontrivial  map[uint64]struct{}
	classes     map[string]int64
	excluded    map[string]int64
	samples     []any
	sampleSeen  map[string]int
	streams     []*StreamInfo
	cur         *StreamInfo
	violations  map[string]*Violation // by sub
	notes       []string
	known       []string
	extra       map[string]any
	rule        string
	assume      []string
}

// Rule states how cases are generated and what makes one non-trivial / distinct.
func (s *Stats) Rule(r string) { s.mu.Lock(); s.rule = r; s.mu.Unlock() }

// Assume records an assumption / trusted component for the evidence file.
func (s *Stats) Assume(a ...string) { s.mu.Lock(); s.assume = append(s.assume, a...); s.mu.Unlock() }

// New creates the collector for a property.
func New(property string, cfg Config) *Stats {
	return &Stats{
		Property:   property,
		cfg:        cfg,
		start:      time.Now(),
		nontrivial: map[uint64]struct{}{},
		classes:    map[string]int64{},
		excluded:   map[string]int64{},
		sampleSeen: map[string]int{},
		violations: map[string]*Violation{},
		extra:      map[string]any{},
	}
}

// Cfg returns the run configuration.
func (s *Stats) Cfg() Config { return s.cfg }

// Stream starts a new named stream; later Eval calls are attributed to it.
func (s *Stats) Stream(name string, exhaustive bool, space string) *StreamInfo {
	s.mu.Lock()
	defer s.mu.Unlock()
	si := &StreamInfo{Name: name, Exhaustive: exhaustive, Space: space}
	s.streams = append(s.streams, si)
	s.cur = si
	return si
}

// Eval counts one executed case.
func (s *Stats) Eval() {
	s.mu.Lock()
	s.evaluations++
	if s.cur != nil {
		s.cur.Evaluations++
	}
	s.mu.Unlock()
}

// Hash is the 64-bit FNV-1a of a canonical case string.
func Hash(key string) uint64 {
	h := fnv.New64a()
	_, _ = h.Write([]byte(key))
	return h.Sum64()
}

// NonTrivial records a case that is non-trivial by the property's stated rule;
// distinctness is by the canonical key.
func (s *Stats) NonTrivial(key string) {
	h := Hash(key)
	s.mu.Lock()
	s.nontrivial[h] = struct{}{}
	s.mu.Unlock()
}

// Class bumps a histogram cell.
func (s *Stats) Class(name string) {
	s.mu.Lock()
	s.classes[name]++
	s.mu.Unlock()
}

// ClassN bumps a histogram cell by n.
func (s *Stats) ClassN(name string, n int64) {
	s.mu.Lock()
	s.classes[name] += n
	s.mu.Unlock()
}

// Excluded counts a case skipped or rewritten because of an open known finding.
func (s *Stats) Excluded(finding string) {
	s.mu.Lock()
	s.excluded[finding]++
	s.mu.Unlock()
}

// Sample keeps up to three samples per class label, 24 overall.
func (s *Stats) Sample(class string, v any) {
	s.mu.Lock()
	defer s.mu.Unlock()
	if len(s.samples) >= 24 || s.sampleSeen[class] >= 3 {
		return
	}
	s.sampleSeen[class]++
	s.samples = append(s.samples, map[string]any{"class": class, "case": v})
}

// Note adds a free-text remark to the evidence.
func (s *Stats) Note(format string, a ...any) {
	s.mu.Lock()
	s.notes = append(s.notes, fmt.Sprintf(format, a...))
	s.mu.Unlock()
}

// Extra stores an additional evidence key.
func (s *Stats) Extra(k string, v any) {
	s.mu.Lock()
	s.extra[k] = v
	s.mu.Unlock()
}

// Known records (and prints) an open known finding whose witness still fails.
func (s *Stats) Known(id, what string) {
	line := fmt.Sprintf("KNOWN-FINDING: property=%s %s [%s]", s.Property, what, id)
	s.mu.Lock()
	s.known = append(s.known, line)
	s.mu.Unlock()
	fmt.Println(line)
}

// Violate captures a failing case; per sub-check the smallest case (by encoded
// length) is kept, which for rapid streams is the shrunk one and for enumerations
// the shortest.
func (s *Stats) Violate(stream string, c any, f *Failure) {
	if f == nil {
		f = Failf("unstable", "the case failed, but not again when re-checked after minimisation (state leaking between cases or a non-deterministic oracle)")
	}
	raw, err := json.Marshal(c)
	if err != nil {
		raw, _ = json.Marshal(fmt.Sprintf("%#v", c))
	}
	s.mu.Lock()
	defer s.mu.Unlock()
	old, ok := s.violations[f.Sub]
	if ok && len(old.Case) <= len(raw) {
		return
	}
	s.violations[f.Sub] = &Violation{
		Property: s.Property, Stream: stream, Sub: f.Sub, Msg: f.Msg, Case: raw,
		Tier: s.cfg.Tier, Seed: s.cfg.Seed,
	}
}

// Failed reports whether any violation was captured.
func (s *Stats) Failed() bool {
	s.mu.Lock()
	defer s.mu.Unlock()
	return len(s.violations) > 0
}

type statsFile struct {
	Property    string           `json:"property"`
	Tier        string           `json:"tier"`
	Seed        uint64           `json:"seed"`
	Shard       int              `json:"shard"`
	NShards     int              `json:"nshards"`
	Evaluations int64            `json:"evaluations"`
	Distinct    int              `json:"distinct_nontrivial"`
	HashFile    string           `json:"hash_file"`
	Classes     map[string]int64 `json:"classes"`
	Excluded    map[string]int64 `json:"excluded_known"`
	Samples     []any            `json:"samples"`
	Streams     []*StreamInfo    `json:"streams"`
	Notes       []string         `json:"notes"`
	Known       []string         `json:"known_findings"`
	Violations  []string         `json:"violation_files"`
	Extra       map[string]any   `json:"extra"`
	Rule        string           `json:"rule"`
	Assumptions []string         `json:"assumptions"`
	WallS       float64          `json:"wall_s"`
}

// Finish writes the per-process statistics and replay files, prints one
// VIOLATION-FILE line per captured violation and fails the test if there are any.
func (s *Stats) Finish(t *testing.T) {
	if s.Flush() > 0 {
		t.Fail()
	}
}

// Flush writes statistics and replay files and returns the number of violations.
func (s *Stats) Flush() int {
	s.mu.Lock()
	defer s.mu.Unlock()
	base := filepath.Join(s.cfg.OutDir, fmt.Sprintf("%s.%d", s.Property, s.cfg.Shard))
	hashes := make([]uint64, 0, len(s.nontrivial))
	for h := range s.nontrivial {
		hashes = append(hashes, h)
	}
	sort.Slice(hashes, func(i, j int) bool { return hashes[i] < hashes[j] })
	buf := make([]byte, 8*len(hashes))
	for i, h := range hashes {
		binary.LittleEndian.PutUint64(buf[8*i:], h)
	}
	_ = os.WriteFile(base+".hashes", buf, 0o644)
	sf := statsFile{
		Property: s.Property, Tier: s.cfg.Tier, Seed: s.cfg.Seed, Shard: s.cfg.Shard, NShards: s.cfg.NShards,
		Evaluations: s.evaluations, Distinct: len(hashes), HashFile: base + ".hashes",
		Classes: s.classes, Excluded: s.excluded, Samples: s.samples, Streams: s.streams,
		Notes: s.notes, Known: s.known, Extra: s.extra, Rule: s.rule, Assumptions: s.assume, WallS: time.Since(s.start).Seconds(),
	}
	subs := make([]string, 0, len(s.violations))
	for sub := range s.violations {
		subs = append(subs, sub)
	}
	sort.Strings(subs)
	for _, sub := range subs {
		v := s.violations[sub]
		raw, _ := json.MarshalIndent(v, "", " ")
		name := fmt.Sprintf("%s-%016x.json", s.Property, Hash(string(v.Case)+v.Sub))
		p := filepath.Join(s.cfg.OutDir, name)
		_ = os.WriteFile(p, raw, 0o644)
		sf.Violations = append(sf.Violations, p)
		fmt.Printf("VIOLATION-FILE property=%s sub=%s file=%s\n  why: %s\n  case: %.600s\n", s.Property, sub, p, v.Msg, string(v.Case))
	}
	raw, _ := json.MarshalIndent(sf, "", " ")
	_ = os.WriteFile(base+".stats.json", raw, 0o644)
	return len(s.violations)
}

// Rapid runs one rapid stream of n cases inside a subtest. The property function
// must call Eval itself. rapid's own fail files are disabled: the replay file
// written by Finish is the reproduction.
func (s *Stats) Rapid(t *testing.T, stream string, n int, prop func(*rapid.T)) {
	si := s.Stream(stream, false, "")
	si.Requested = int64(n)
	_ = flag.Set("rapid.checks", strconv.Itoa(n))
	_ = flag.Set("rapid.seed", strconv.FormatUint(s.cfg.RapidSeed(stream), 10))
	_ = flag.Set("rapid.nofailfile", "true")
	_ = flag.Set("rapid.shrinktime", "20s")
	ok := t.Run(stream, func(t *testing.T) { rapid.Check(t, prop) })
	if !ok && !s.Failed() {
		// rapid failed for a reason that is not a captured violation (e.g. too many
		// invalid cases): surface as an inconclusive run.
		fmt.Printf("INCONCLUSIVE property=%s stream=%s rapid reported a failure without a captured case\n", s.Property, stream)
	}
}

// Guard runs fn, converting a panic into a Failure.
func Guard(sub string, fn func()) (f *Failure) {
	defer func() {
		if r := recover(); r != nil {
			f = Failf(sub, "panic: %v", r)
		}
	}()
	fn()
	return nil
}
