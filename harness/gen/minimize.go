package gen

func cloneVal(v *Val) *Val {
	if v == nil {
		return nil
	}
	c := *v
	return &c
}

// Clone deep-copies a tree.
func Clone(n *Node) *Node {
	if n == nil {
		return nil
	}
	c := *n
	c.Field, c.V, c.Lo, c.Hi = cloneVal(n.Field), cloneVal(n.V), cloneVal(n.Lo), cloneVal(n.Hi)
	c.Vals = nil
	for _, v := range n.Vals {
		c.Vals = append(c.Vals, cloneVal(v))
	}
	c.L, c.R = Clone(n.L), Clone(n.R)
	return &c
}

// Minimize greedily replaces nodes by one of their children while fails keeps
// returning true - harness-level shrinking on top of the library's, which works on
// the random bit stream and shrinks recursive structures poorly. fails must not
// modify the tree it is given.
// minimizeRuns is the number of minimisations left in this process (see MinimizeToks).
var minimizeRuns = 40

func Minimize(tree *Node, fails func(*Node) bool) *Node {
	cur := Clone(tree)
	if minimizeRuns--; minimizeRuns < 0 {
		return cur
	}
	for changed := true; changed; {
		changed = false
		var try func(n *Node, set func(*Node)) bool
		try = func(n *Node, set func(*Node)) bool {
			if n == nil {
				return false
			}
			for _, ch := range []*Node{n.L, n.R} {
				if ch == nil {
					continue
				}
				set(ch)
				if fails(cur) {
					return true
				}
				set(n)
			}
			if try(n.L, func(x *Node) { n.L = x }) {
				return true
			}
			return try(n.R, func(x *Node) { n.R = x })
		}
		if try(cur, func(x *Node) { cur = x }) {
			changed = true
		}
	}
	return cur
}

// MinimizeToks greedily deletes tokens while fails keeps returning true.
// The number of trials is bounded (more trials for short sequences, at least 200): a
// violation that needs one exact large size cannot be shrunk, and trying to would cost
// a quadratic number of expensive evaluations.
//
// A defect that makes very many cases fail (say, one that depends on what an earlier
// call did) would have each of them minimised in turn: after minimizeRuns minimisations
// in one process further cases are reported as they are (the smallest case per
// sub-check is kept anyway).
func MinimizeToks(toks []Tok, fails func([]Tok) bool) []Tok {
	cur := append([]Tok(nil), toks...)
	if minimizeRuns--; minimizeRuns < 0 {
		return cur
	}
	budget := 200
	if len(toks) > 0 && 400000/len(toks) > budget {
		budget = 400000 / len(toks)
	}
	for changed := true; changed; {
		changed = false
		for width := 2; width >= 1 && !changed; width-- {
			for i := 0; i+width <= len(cur); i++ {
				if budget--; budget < 0 {
					return cur
				}
				cand := append(append([]Tok(nil), cur[:i]...), cur[i+width:]...)
				if len(cand) > 0 && fails(cand) {
					cur = cand
					changed = true
					break
				}
			}
		}
	}
	return cur
}
