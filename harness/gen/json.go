package gen

import (
	"encoding/base64"
	"encoding/json"
	"unicode/utf8"
)

// Values and tokens may hold arbitrary bytes (NUL, invalid UTF-8). encoding/json
// would silently replace invalid bytes by U+FFFD, so texts that are not valid UTF-8
// are stored base64-encoded under a parallel key; replay files stay lossless.

type valJSON struct {
	K      VKind   `json:"k"`
	Src    string  `json:"src,omitempty"`
	SrcB64 string  `json:"src_b64,omitempty"`
	S      string  `json:"s,omitempty"`
	SB64   string  `json:"s_b64,omitempty"`
	I      int     `json:"i,omitempty"`
	F      float64 `json:"f,omitempty"`
}

func enc(s string) (plain, b64 string) {
	if utf8.ValidString(s) {
		return s, ""
	}
	return "", base64.StdEncoding.EncodeToString([]byte(s))
}

func dec(plain, b64 string) string {
	if b64 != "" {
		if b, err := base64.StdEncoding.DecodeString(b64); err == nil {
			return string(b)
		}
	}
	return plain
}

// MarshalJSON keeps Src and S byte-exact.
func (v Val) MarshalJSON() ([]byte, error) {
	j := valJSON{K: v.K, I: v.I, F: v.F}
	j.Src, j.SrcB64 = enc(v.Src)
	j.S, j.SB64 = enc(v.S)
	return json.Marshal(j)
}

// UnmarshalJSON is the inverse of MarshalJSON.
func (v *Val) UnmarshalJSON(b []byte) error {
	var j valJSON
	if err := json.Unmarshal(b, &j); err != nil {
		return err
	}
	*v = Val{K: j.K, Src: dec(j.Src, j.SrcB64), S: dec(j.S, j.SB64), I: j.I, F: j.F}
	return nil
}

type tokJSON struct {
	Text    string `json:"text,omitempty"`
	TextB64 string `json:"text_b64,omitempty"`
	Class   TClass `json:"class"`
	Sym     string `json:"sym,omitempty"`
	Val     *Val   `json:"val,omitempty"`
	Node    int    `json:"node"`
}

// MarshalJSON keeps Text byte-exact.
func (t Tok) MarshalJSON() ([]byte, error) {
	j := tokJSON{Class: t.Class, Sym: t.Sym, Val: t.Val, Node: t.Node}
	j.Text, j.TextB64 = enc(t.Text)
	return json.Marshal(j)
}

// UnmarshalJSON is the inverse of MarshalJSON.
func (t *Tok) UnmarshalJSON(b []byte) error {
	var j tokJSON
	if err := json.Unmarshal(b, &j); err != nil {
		return err
	}
	*t = Tok{Text: dec(j.Text, j.TextB64), Class: j.Class, Sym: j.Sym, Val: j.Val, Node: j.Node}
	return nil
}
