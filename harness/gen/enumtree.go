package gen

// LeafAlphabet returns one leaf per (form x value kind) the parser distinguishes.
func LeafAlphabet(big bool) []*Node {
	f := Word("f")
	leaves := []*Node{
		{K: NTerm, V: Word("a")},
		{K: NTerm, V: Quoted("q r")},
		{K: NTerm, V: Int(5)},
		{K: NTerm, V: Wild("w*")},
		{K: NField, Field: f, V: Word("b")},
		{K: NField, Field: f, V: Int(-3)},
		{K: NCmp, Field: f, Cmp: ">=", V: Int(7)},
		{K: NRange, Field: f, Lo: Int(1), Hi: Int(5), IncLo: true, IncHi: true},
		{K: NTerm, V: RawWord("'s t'")},
	}
	if big {
		leaves = append(leaves,
			&Node{K: NTerm, V: Regexp("r x")},
			&Node{K: NTerm, V: Float("1.5")},
			&Node{K: NField, Field: f, V: Wild("b?z")},
			&Node{K: NCmp, Field: f, Cmp: "<", V: Float("2.5")},
			&Node{K: NRange, Field: f, Lo: nil, Hi: Word("z"), IncLo: false, IncHi: false},
			&Node{K: NList, Field: f, Vals: []*Val{Word("x"), Int(2), Quoted("y z")}},
		)
	}
	return leaves
}

// EnumOps selects the operators EnumTrees composes.
type EnumOps struct {
	Suffix bool // ^ ^2 ~ ~2
	Group  bool // f:(E)
}

// EnumTrees calls fn for every tree of operator depth <= depth over the leaves.
// The number of trees is returned. Trees share sub-nodes; fn must not modify them.
func EnumTrees(leaves []*Node, depth int, ops EnumOps, shard, nshards int, fn func(*Node)) int64 {
	level := append([]*Node(nil), leaves...)
	for d := 1; d < depth; d++ {
		level = expand(leaves, level, ops)
	}
	var total int64
	emit := func(n *Node) {
		if int(total%int64(nshards)) == shard {
			fn(n)
		}
		total++
	}
	if depth == 0 {
		for _, l := range leaves {
			emit(l)
		}
		return total
	}
	// last level is streamed rather than materialised
	for _, l := range leaves {
		emit(l)
	}
	for _, x := range level {
		for _, u := range unaries(x, ops) {
			emit(u)
		}
	}
	for _, x := range level {
		for _, y := range level {
			emit(&Node{K: NAnd, L: x, R: y})
			emit(&Node{K: NOr, L: x, R: y})
		}
	}
	return total
}

func unaries(x *Node, ops EnumOps) []*Node {
	out := []*Node{{K: NNot, L: x}, {K: NMust, L: x}, {K: NMustNot, L: x}}
	if ops.Suffix {
		out = append(out,
			&Node{K: NBoost, L: x}, &Node{K: NBoost, L: x, Arg: true, ArgS: "2", Pow: 2},
			&Node{K: NFuzzy, L: x}, &Node{K: NFuzzy, L: x, Arg: true, ArgS: "3", Dist: 3})
	}
	if ops.Group && !isPlainOrChain(x) && x.K != NTerm {
		out = append(out, &Node{K: NGroup, Field: Word("g"), L: x})
	}
	return out
}

func expand(leaves, prev []*Node, ops EnumOps) []*Node {
	out := append([]*Node(nil), leaves...)
	for _, x := range prev {
		out = append(out, unaries(x, ops)...)
	}
	for _, x := range prev {
		for _, y := range prev {
			out = append(out, &Node{K: NAnd, L: x, R: y}, &Node{K: NOr, L: x, R: y})
		}
	}
	return out
}
