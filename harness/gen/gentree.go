package gen

import (
	"strconv"

	"pgregory.net/rapid"
)

// TreeCfg selects what GenTree may produce.
type TreeCfg struct {
	Vals         ValKinds
	Bare         bool // bare terms
	Cmp          bool
	Range        bool
	MixedBracket bool // [a TO b} forms
	List         bool
	Group        bool // f:(E)
	And, Or, Not bool
	Must, MNot   bool
	Boost, Fuzzy bool
	ExoticFields bool
	EqSign       bool
	MaxDepth     int
	SameTypeRng  bool // range bounds of the same value class
}

// ParseCfg is everything the parser-level properties quantify over.
var ParseCfg = TreeCfg{Vals: AllVals, Bare: true, Cmp: true, Range: true, List: true, Group: true, And: true, Or: true, Not: true,
	Must: true, MNot: true, Boost: true, Fuzzy: true, ExoticFields: true, EqSign: true, MaxDepth: 5}

var powPool = []string{"2", "10", "1.5", "4", "1.2", "0.5", "1", "3", "1.2345678", "0.30000000000000004", "0.0000005", "1e-7", "123456789.125", "1e21"}
var distPool = []string{"2", "10", "4", "1", "0", "-2", "3"}

func genLeaf(t *rapid.T, c TreeCfg) *Node {
	var kinds []NKind
	kinds = append(kinds, NField, NField, NField)
	if c.Bare {
		kinds = append(kinds, NTerm, NTerm)
	}
	if c.Cmp {
		kinds = append(kinds, NCmp)
	}
	if c.Range {
		kinds = append(kinds, NRange, NRange)
	}
	if c.List {
		kinds = append(kinds, NList)
	}
	k := rapid.SampledFrom(kinds).Draw(t, "leafkind")
	n := &Node{K: k}
	if k != NTerm {
		n.Field = GenFieldVal(c.ExoticFields).Draw(t, "field")
	}
	switch k {
	case NTerm:
		n.V = GenVal(c.Vals).Draw(t, "v")
	case NField:
		n.V = GenVal(c.Vals).Draw(t, "v")
		if c.EqSign {
			n.EqSgn = rapid.IntRange(0, 7).Draw(t, "eqsgn") == 0
		}
	case NCmp:
		n.Cmp = rapid.SampledFrom([]string{">", ">=", "<", "<="}).Draw(t, "cmp")
		pk := c.Vals
		pk.Wild, pk.Regexp = false, false
		n.V = GenVal(pk).Draw(t, "v")
	case NRange:
		pk := c.Vals
		pk.Wild, pk.Regexp = false, false
		open := rapid.IntRange(0, 5).Draw(t, "open")
		if open != 0 {
			n.Lo = GenVal(pk).Draw(t, "lo")
		}
		if open != 1 {
			if c.SameTypeRng && n.Lo != nil {
				one := ValKinds{Hostile: pk.Hostile}
				switch n.Lo.K {
				case VInt, VFloat:
					one.Int, one.Float = pk.Int, pk.Float
				default:
					one.Word, one.Quoted = pk.Word, pk.Quoted
				}
				n.Hi = GenVal(one).Draw(t, "hi")
			} else {
				n.Hi = GenVal(pk).Draw(t, "hi")
			}
		}
		if n.Lo != nil && n.Hi != nil {
			switch rapid.IntRange(0, 9).Draw(t, "boundrel") {
			case 0: // equal bounds
				n.Hi = n.Lo
			case 1: // min > max
				n.Lo, n.Hi = n.Hi, n.Lo
			}
		}
		n.IncLo = rapid.Bool().Draw(t, "inclo")
		n.IncHi = n.IncLo
		if c.MixedBracket && rapid.IntRange(0, 5).Draw(t, "mixed") == 0 {
			n.IncHi = !n.IncLo
		}
	case NList:
		pk := c.Vals
		pk.Wild, pk.Regexp = false, false
		cnt := rapid.IntRange(2, 4).Draw(t, "nvals")
		switch rapid.IntRange(0, 39).Draw(t, "biglist") {
		case 0, 1:
			cnt = rapid.IntRange(5, 40).Draw(t, "nbig")
		case 2: // sizes around powers of two and their multiples (buffers, run lengths)
			cnt = rapid.SampledFrom([]int{15, 16, 17, 31, 32, 33, 63, 64, 65, 96, 127, 128, 129, 255, 256, 257}).Draw(t, "nedge")
		}
		for i := 0; i < cnt; i++ {
			if i > 0 && rapid.IntRange(0, 7).Draw(t, "dup") == 0 {
				n.Vals = append(n.Vals, n.Vals[rapid.IntRange(0, i-1).Draw(t, "dupof")]) // a repeated value
				continue
			}
			n.Vals = append(n.Vals, GenVal(pk).Draw(t, "lv"))
		}
	}
	return n
}

// isPlainOrChain reports whether the tree is a bare plain term or an OR chain of
// bare plain terms (which the grammar reads as a value list / single value when it
// stands as a field's group).
func isPlainOrChain(n *Node) bool {
	switch n.K {
	case NTerm:
		return n.V.IsPlain()
	case NOr:
		return isPlainOrChain(n.L) && isPlainOrChain(n.R)
	}
	return false
}

func genNode(t *rapid.T, c TreeCfg, depth int) *Node {
	type op struct {
		k NKind
		w int
	}
	var ops []op
	add := func(on bool, k NKind, w int) {
		if on {
			ops = append(ops, op{k, w})
		}
	}
	if depth < c.MaxDepth {
		add(c.And, NAnd, 5)
		add(c.Or, NOr, 4)
		add(c.Not, NNot, 2)
		add(c.Must, NMust, 2)
		add(c.MNot, NMustNot, 2)
		add(c.Boost, NBoost, 2)
		add(c.Fuzzy, NFuzzy, 2)
		add(c.Group, NGroup, 1)
	}
	total := 0
	for _, o := range ops {
		total += o.w
	}
	leafW := 6 + 5*depth
	pick := rapid.IntRange(0, total+leafW-1).Draw(t, "nodekind")
	if pick >= total {
		return genLeaf(t, c)
	}
	var k NKind
	for _, o := range ops {
		if pick < o.w {
			k = o.k
			break
		}
		pick -= o.w
	}
	n := &Node{K: k}
	switch k {
	case NAnd, NOr:
		n.L = genNode(t, c, depth+1)
		n.R = genNode(t, c, depth+1)
	case NGroup:
		n.Field = GenFieldVal(c.ExoticFields).Draw(t, "gfield")
		cc := c
		n.L = genNode(t, cc, depth+1)
		if isPlainOrChain(n.L) || n.L.K == NTerm {
			// would be read as a list / plain field value: make it a conjunction
			n.L = &Node{K: NAnd, L: n.L, R: genLeaf(t, c)}
		}
	case NBoost:
		n.L = genNode(t, c, depth+1)
		if rapid.IntRange(0, 3).Draw(t, "hasarg") > 0 {
			n.Arg = true
			n.ArgS = rapid.SampledFrom(powPool).Draw(t, "pow")
			n.Pow, _ = strconv.ParseFloat(n.ArgS, 64)
		}
	case NFuzzy:
		n.L = genNode(t, c, depth+1)
		if rapid.IntRange(0, 3).Draw(t, "hasarg") > 0 {
			n.Arg = true
			n.ArgS = rapid.SampledFrom(distPool).Draw(t, "dist")
			n.Dist, _ = strconv.Atoi(n.ArgS)
		}
	default:
		n.L = genNode(t, c, depth+1)
	}
	return n
}

// genBigShape draws one of the size / shape extremes: a long chain of one binary
// operator, a deep unary or group nest, a suffix operator repeated many times, a
// very long term.
func genBigShape(t *rapid.T, c TreeCfg) *Node {
	n := rapid.IntRange(12, 70).Draw(t, "bign")
	leaf := func() *Node { return genLeaf(t, c) }
	switch rapid.IntRange(0, 5).Draw(t, "bigkind") {
	case 0, 1: // left- or right-deep chain of AND / OR
		k := NAnd
		if c.Or && rapid.Bool().Draw(t, "bigor") {
			k = NOr
		}
		right := rapid.Bool().Draw(t, "rightdeep")
		cur := leaf()
		for i := 0; i < n; i++ {
			if right {
				cur = &Node{K: k, L: leaf(), R: cur}
			} else {
				cur = &Node{K: k, L: cur, R: leaf()}
			}
		}
		return cur
	case 2: // deep unary nest
		cur := leaf()
		ops := []NKind{}
		for _, o := range []struct {
			on bool
			k  NKind
		}{{c.Not, NNot}, {c.Must, NMust}, {c.MNot, NMustNot}} {
			if o.on {
				ops = append(ops, o.k)
			}
		}
		if len(ops) == 0 {
			return cur
		}
		for i := 0; i < n; i++ {
			cur = &Node{K: rapid.SampledFrom(ops).Draw(t, "un"), L: cur}
		}
		return cur
	case 3: // one suffix operator repeated
		if !c.Boost && !c.Fuzzy {
			return leaf()
		}
		cur := leaf()
		k := NBoost
		if !c.Boost || (c.Fuzzy && rapid.Bool().Draw(t, "fz")) {
			k = NFuzzy
		}
		for i := 0; i < n/3+2; i++ {
			x := &Node{K: k, L: cur}
			if rapid.Bool().Draw(t, "arg") {
				x.Arg = true
				if k == NBoost {
					x.ArgS = rapid.SampledFrom(powPool).Draw(t, "pw")
					x.Pow, _ = strconv.ParseFloat(x.ArgS, 64)
				} else {
					x.ArgS = rapid.SampledFrom(distPool).Draw(t, "ds")
					x.Dist, _ = strconv.Atoi(x.ArgS)
				}
			}
			cur = x
		}
		return cur
	case 4: // very long term
		w := ""
		for len(w) < n*12 {
			w += rapid.SampledFrom(simpleWords).Draw(t, "lw")
		}
		if !PlainWordOK(w) {
			w = "w" + w
		}
		if c.Bare && rapid.Bool().Draw(t, "longbare") {
			return &Node{K: NTerm, V: Word(w)}
		}
		return &Node{K: NField, Field: Word("f"), V: Quoted(w + " " + w)}
	default: // balanced tree of mixed operators
		nodes := []*Node{}
		for i := 0; i < n; i++ {
			nodes = append(nodes, leaf())
		}
		for len(nodes) > 1 {
			var next []*Node
			for i := 0; i+1 < len(nodes); i += 2 {
				k := NAnd
				if c.Or && rapid.Bool().Draw(t, "mix") {
					k = NOr
				}
				next = append(next, &Node{K: k, L: nodes[i], R: nodes[i+1]})
			}
			if len(nodes)%2 == 1 {
				next = append(next, nodes[len(nodes)-1])
			}
			nodes = next
		}
		return nodes[0]
	}
}

// GenTree draws a query tree; about one in 25 is a size / shape extreme.
func GenTree(c TreeCfg) *rapid.Generator[*Node] {
	return rapid.Custom(func(t *rapid.T) *Node {
		if c.MaxDepth >= 3 && (c.And || c.Or) && rapid.IntRange(0, 24).Draw(t, "bigshape") == 0 {
			return genBigShape(t, c)
		}
		return genNode(t, c, 0)
	})
}

var fillPool = []string{" ", " ", " ", "\t", "\n", "\r\n", "  ", " \t ", "\n\n", "", "", " \r "}

// GenFill draws whitespace fillers.
func GenFill() *rapid.Generator[[]string] {
	return rapid.SliceOfN(rapid.SampledFrom(fillPool), 1, 9)
}

// NestInTermPosition replaces one randomly chosen term token of a printed query
// by the tokens of a small sub-query (a leaf form or a one-operator tree), with or
// without parentheses. This aims at positions where the grammar allows only a
// single term - field names, range bounds, list elements, the number of ~ and ^ -
// and at groups nested in value positions.
func NestInTermPosition(t *rapid.T, toks []Tok) []Tok {
	var terms []int
	for i, tk := range toks {
		if tk.Class == TTerm {
			terms = append(terms, i)
		}
	}
	if len(terms) == 0 {
		return toks
	}
	at := rapid.SampledFrom(terms).Draw(t, "nestat")
	c := ParseCfg
	c.MaxDepth = 1
	sub := Print(genNode(t, c, 0), Opts{}).Toks
	if rapid.IntRange(0, 3).Draw(t, "illformed") == 0 {
		// grammatical token runs whose tree has a non-term in a field position
		a, b, d := Term(Word("p")), Term(Word("q")), Term(Word("r"))
		sub = rapid.SampledFrom([][]Tok{
			{a, Sym(":"), b, Sym(":"), d},
			{Sym("("), a, b, Sym(")"), Sym(":"), Sym("["), Term(Int(1)), Kw("TO", "TO"), Term(Int(2)), Sym("]")},
			{Sym("("), a, Kw("OR", "OR"), b, Sym(")"), Sym(":"), Term(Wild("e*"))},
			{Sym("("), a, Kw("AND", "AND"), b, Sym(")"), Sym(":"), Sym(">"), Term(Int(5))},
			{Sym("("), Kw("NOT", "NOT"), a, Sym(")"), Sym("="), b},
			{a, Sym(":"), Sym("("), b, Sym(":"), d, Sym(":"), a, Sym(")")},
		}).Draw(t, "illsub")
	}
	if rapid.Bool().Draw(t, "nestparen") {
		sub = append(append([]Tok{Sym("(")}, sub...), Sym(")"))
	}
	out := append([]Tok(nil), toks[:at]...)
	out = append(out, sub...)
	return append(out, toks[at+1:]...)
}
