package gen

import (
	"strconv"
	"strings"
)

// TClass is the class of a printed token.
type TClass int

// token classes
const (
	TTerm TClass = iota // a term: word, number, quoted phrase, pattern, regexp
	TSym                // one of ( ) [ ] { } : = > < + - ~ ^
	TKw                 // AND OR NOT TO (any letter case)
)

// Tok is one token of a printed query, with the meaning the harness intends.
type Tok struct {
	Text  string `json:"text"`
	Class TClass `json:"class"`
	Sym   string `json:"sym,omitempty"` // canonical symbol or upper-case keyword
	Val   *Val   `json:"val,omitempty"` // term tokens
	Node  int    `json:"node"`          // preorder id of the owning node (-1: none)
}

// Opts controls how a tree is written down.
type Opts struct {
	Full    bool         `json:"full,omitempty"`    // parenthesise every operand
	Extra   map[int]int  `json:"extra,omitempty"`   // node id -> redundant paren pairs around the node
	ValPar  map[int]int  `json:"valpar,omitempty"`  // NField/NCmp node id -> paren pairs around the value term
	LstPar  map[int]int  `json:"lstpar,omitempty"`  // NList node id -> bit mask of list values written in parentheses
	LstNest map[int]int  `json:"lstnest,omitempty"` // NList node id -> 1: values grouped to the right v1 OR (v2 OR (v3 OR v4)), 2: to the left ((v1 OR v2) OR v3) OR v4
	ArgPar  map[int]int  `json:"argpar,omitempty"`  // NBoost/NFuzzy node id -> paren pairs around the written number
	Juxta   map[int]bool `json:"juxta,omitempty"`   // AND node ids written as juxtaposition
	KwCase  []int        `json:"kwcase,omitempty"`  // style per keyword occurrence, cycled
	Fill    []string     `json:"fill,omitempty"`    // whitespace per gap, cycled; gap 0 is leading, last is trailing
	Lead    string       `json:"lead,omitempty"`
	Trail   string       `json:"trail,omitempty"`
}

// Printed is the result of printing a tree.
type Printed struct {
	Toks  []Tok
	Span  map[int][2]int // node id -> token span [start,end) including its parentheses
	Inner map[int][2]int // node id -> token span without the parentheses around the node
	Kw    int            // number of keyword tokens
}

type printer struct {
	o    Opts
	toks []Tok
	next int
	out  Printed
	kw   int
}

func kwText(kw string, style int) string {
	switch style % 4 {
	case 1:
		return strings.ToLower(kw)
	case 2:
		return kw[:1] + strings.ToLower(kw[1:])
	case 3:
		b := []byte(strings.ToLower(kw))
		b[len(b)-1] = kw[len(kw)-1]
		return string(b)
	}
	return kw
}

func (p *printer) sym(s string, node int) {
	p.toks = append(p.toks, Tok{Text: s, Class: TSym, Sym: s, Node: node})
}

func (p *printer) kwd(s string, node int) {
	style := 0
	if len(p.o.KwCase) > 0 {
		style = p.o.KwCase[p.kw%len(p.o.KwCase)]
	}
	p.kw++
	p.toks = append(p.toks, Tok{Text: kwText(s, style), Class: TKw, Sym: s, Node: node})
}

func (p *printer) term(v *Val, node int) {
	p.toks = append(p.toks, Tok{Text: v.Src, Class: TTerm, Val: v, Node: node})
}

var star = Wild("*")

func (p *printer) value(v *Val, id int) {
	k := p.o.ValPar[id]
	for i := 0; i < k; i++ {
		p.sym("(", id)
	}
	p.term(v, id)
	for i := 0; i < k; i++ {
		p.sym(")", id)
	}
}

func (p *printer) emit(n *Node, wrap, isRoot bool) {
	id := p.next
	p.next++
	start := len(p.toks)
	pairs := p.o.Extra[id]
	if wrap || (p.o.Full && !isRoot) {
		pairs++
	}
	for i := 0; i < pairs; i++ {
		p.sym("(", id)
	}
	istart := len(p.toks)
	switch n.K {
	case NTerm:
		p.term(n.V, id)
	case NField:
		p.term(n.Field, id)
		if n.EqSgn {
			p.sym("=", id)
		} else {
			p.sym(":", id)
		}
		p.value(n.V, id)
	case NCmp:
		p.term(n.Field, id)
		p.sym(":", id)
		p.sym(n.Cmp[:1], id)
		if len(n.Cmp) == 2 {
			p.sym("=", id)
		}
		p.value(n.V, id)
	case NRange:
		p.term(n.Field, id)
		p.sym(":", id)
		if n.IncLo {
			p.sym("[", id)
		} else {
			p.sym("{", id)
		}
		if n.Lo != nil {
			p.term(n.Lo, id)
		} else {
			p.term(star, id)
		}
		p.kwd("TO", id)
		if n.Hi != nil {
			p.term(n.Hi, id)
		} else {
			p.term(star, id)
		}
		if n.IncHi {
			p.sym("]", id)
		} else {
			p.sym("}", id)
		}
	case NList:
		p.term(n.Field, id)
		p.sym(":", id)
		p.sym("(", id)
		nest := 0
		if len(n.Vals) >= 3 {
			nest = p.o.LstNest[id]
		}
		if nest == 2 {
			for i := 0; i < len(n.Vals)-2; i++ {
				p.sym("(", id)
			}
		}
		for i, v := range n.Vals {
			if i > 0 {
				p.kwd("OR", id)
				if nest == 1 && i < len(n.Vals)-1 {
					p.sym("(", id)
				}
			}
			if i < 30 && p.o.LstPar[id]&(1<<uint(i)) != 0 {
				p.sym("(", id)
				p.term(v, id)
				p.sym(")", id)
			} else {
				p.term(v, id)
			}
			if nest == 2 && i >= 1 && i < len(n.Vals)-1 {
				p.sym(")", id)
			}
		}
		if nest == 1 {
			for i := 0; i < len(n.Vals)-2; i++ {
				p.sym(")", id)
			}
		}
		p.sym(")", id)
	case NGroup:
		p.term(n.Field, id)
		p.sym(":", id)
		p.emit(n.L, true, false)
	case NAnd, NOr:
		p.emit(n.L, prec(n.L.K) < prec(n.K), false)
		if n.K == NOr {
			p.kwd("OR", id)
		} else if !p.o.Juxta[id] {
			p.kwd("AND", id)
		}
		p.emit(n.R, prec(n.R.K) <= prec(n.K), false)
	case NNot:
		p.kwd("NOT", id)
		p.emit(n.L, prec(n.L.K) <= prec(n.K), false)
	case NMust:
		p.sym("+", id)
		p.emit(n.L, prec(n.L.K) <= prec(n.K), false)
	case NMustNot:
		p.sym("-", id)
		p.emit(n.L, prec(n.L.K) <= prec(n.K), false)
	case NBoost, NFuzzy:
		p.emit(n.L, prec(n.L.K) < prec(n.K), false)
		if n.K == NBoost {
			p.sym("^", id)
		} else {
			p.sym("~", id)
		}
		if n.Arg {
			var v *Val
			if n.K == NBoost {
				v = &Val{K: VFloat, Src: n.ArgS, F: n.Pow}
				if i, err := strconv.Atoi(n.ArgS); err == nil {
					v = &Val{K: VInt, Src: n.ArgS, I: i}
				}
			} else {
				v = &Val{K: VInt, Src: n.ArgS, I: n.Dist}
			}
			for i := 0; i < p.o.ArgPar[id]; i++ {
				p.sym("(", id)
			}
			p.term(v, id)
			for i := 0; i < p.o.ArgPar[id]; i++ {
				p.sym(")", id)
			}
		}
	}
	iend := len(p.toks)
	for i := 0; i < pairs; i++ {
		p.sym(")", id)
	}
	p.out.Span[id] = [2]int{start, len(p.toks)}
	p.out.Inner[id] = [2]int{istart, iend}
}

// Print writes the tree as a token list with parentheses exactly where the
// documented precedence table requires them (plus whatever Opts adds).
func Print(n *Node, o Opts) Printed {
	p := &printer{o: o}
	p.out.Span = map[int][2]int{}
	p.out.Inner = map[int][2]int{}
	p.emit(n, false, true)
	p.out.Toks = p.toks
	p.out.Kw = p.kw
	return p.out
}

func isGlueSym(t Tok) bool {
	return t.Class == TSym && t.Sym != "-"
}

// CanAbut reports whether two adjacent tokens may be written with nothing between
// them without changing the token sequence: conservatively, only when one of them
// is a single-character symbol other than '-' or a delimited token (quoted phrase,
// regexp), and the left one does not end in a backslash.
func CanAbut(l, r Tok) bool {
	if strings.HasSuffix(l.Text, `\`) {
		return false
	}
	if isGlueSym(l) || isGlueSym(r) {
		return true
	}
	// delimited tokens ("phrase", 'phrase', /regexp/) are self-delimiting at both ends
	return delimited(l) || delimited(r)
}

func delimited(t Tok) bool {
	if t.Class != TTerm || len(t.Text) < 2 {
		return false
	}
	f, l := t.Text[0], t.Text[len(t.Text)-1]
	return f == l && (f == '"' || f == '\'' || f == '/')
}

// Join writes tokens separated by the whitespace fillers of o (cycled over the
// gaps); a filler that is empty where the two tokens cannot abut is replaced by a
// single space.
func Join(toks []Tok, o Opts) string {
	var b strings.Builder
	b.WriteString(o.Lead)
	for i, t := range toks {
		if i > 0 {
			f := " "
			if len(o.Fill) > 0 {
				f = o.Fill[(i-1)%len(o.Fill)]
			}
			if f == "" && !CanAbut(toks[i-1], t) {
				f = " "
			}
			b.WriteString(f)
		}
		b.WriteString(t.Text)
	}
	b.WriteString(o.Trail)
	return b.String()
}

// Text prints and joins in one step.
func Text(n *Node, o Opts) string { return Join(Print(n, o).Toks, o) }
