// Package gen holds the generators: the query-tree model with its precedence-aware
// printer (G2), value classes (G3), the token alphabet enumerator (G1) and the JSON
// document generator (G4). Nothing here calls the lexer or parser under test; the
// only dependency on go-lucene is the public expr constructors used to build the
// expected tree from a generated tree.
package gen

import (
	"fmt"
	"strconv"
	"strings"

	"github.com/grindlemire/go-lucene/pkg/lucene/expr"
)

// VKind is the kind of a term value.
type VKind int

// value kinds
const (
	VWord   VKind = iota // bare word (possibly with backslash escapes); plain string
	VQuoted              // "double quoted" phrase; plain string
	VInt                 // integer
	VFloat               // non-integer decimal
	VWild                // bare word containing unescaped * or ?
	VRegexp              // /regexp/
)

func (k VKind) String() string {
	return [...]string{"word", "quoted", "int", "float", "wild", "regexp"}[k]
}

// Val is one term: how it is written (Src, exactly one token) and what it denotes.
type Val struct {
	K   VKind   `json:"k"`
	Src string  `json:"src"`
	S   string  `json:"s,omitempty"` // word/quoted: the string value; wild: pattern; regexp: text incl. slashes
	I   int     `json:"i,omitempty"`
	F   float64 `json:"f,omitempty"`
}

// IsPlain reports whether the value is a plain (non-pattern) value.
func (v *Val) IsPlain() bool { return v.K != VWild && v.K != VRegexp }

// IsString reports whether the value denotes a plain string.
func (v *Val) IsString() bool { return v.K == VWord || v.K == VQuoted }

// GoValue returns the Go value the leaf is expected to hold.
func (v *Val) GoValue() any {
	switch v.K {
	case VInt:
		return v.I
	case VFloat:
		return v.F
	default:
		return v.S
	}
}

// Leaf builds the expected leaf expression through the public constructors.
func (v *Val) Leaf() *expr.Expression {
	switch v.K {
	case VInt:
		return expr.Lit(v.I)
	case VFloat:
		return expr.Lit(v.F)
	case VWild:
		return expr.WILD(v.S)
	case VRegexp:
		return expr.REGEXP(v.S)
	default:
		return expr.Lit(v.S)
	}
}

// Word makes a bare-word value that needs no escaping.
func Word(s string) *Val { return &Val{K: VWord, Src: s, S: s} }

// Quoted makes a double-quoted phrase value (s must not contain '"').
func Quoted(s string) *Val { return &Val{K: VQuoted, Src: `"` + s + `"`, S: s} }

// Int makes an integer value.
func Int(i int) *Val { return &Val{K: VInt, Src: strconv.Itoa(i), I: i} }

// IntSrc makes an integer value from its source text (e.g. with leading zeros),
// read as a decimal number.
func IntSrc(src string) *Val {
	i, err := strconv.Atoi(src)
	if err != nil {
		panic("gen.IntSrc: " + src)
	}
	return &Val{K: VInt, Src: src, I: i}
}

// Float makes a decimal value from its source text (which must parse).
func Float(src string) *Val {
	f, err := strconv.ParseFloat(src, 64)
	if err != nil {
		panic("gen.Float: " + src)
	}
	return &Val{K: VFloat, Src: src, F: f}
}

// Wild makes a wildcard pattern value (no backslashes).
func Wild(p string) *Val { return &Val{K: VWild, Src: p, S: p} }

// Regexp makes a regexp value; body is the text between the slashes.
func Regexp(body string) *Val { return &Val{K: VRegexp, Src: "/" + body + "/", S: "/" + body + "/"} }

// EscapedWord makes a bare word denoting s with a backslash before every rune that
// is not an ASCII letter, digit or underscore.
func EscapedWord(s string) *Val {
	var b strings.Builder
	for _, r := range s {
		if !(r >= 'a' && r <= 'z' || r >= 'A' && r <= 'Z' || r >= '0' && r <= '9' || r == '_') {
			b.WriteByte('\\')
		}
		b.WriteRune(r)
	}
	return &Val{K: VWord, Src: b.String(), S: s}
}

// NKind is the kind of a query-tree node.
type NKind int

// node kinds
const (
	NTerm  NKind = iota // bare term
	NField              // f:v
	NCmp                // f:>v f:>=v f:<v f:<=v
	NRange              // f:[a TO b] f:{a TO b}
	NList               // f:(v1 OR v2 ...)
	NGroup              // f:(E) with E not a plain-literal OR chain and not a single term
	NAnd
	NOr
	NNot
	NMust
	NMustNot
	NBoost
	NFuzzy
)

var nkindNames = [...]string{"term", "field", "cmp", "range", "list", "group", "AND", "OR", "NOT", "+", "-", "^", "~"}

func (k NKind) String() string { return nkindNames[k] }

// Node is a generated query tree.
type Node struct {
	K     NKind   `json:"k"`
	Field *Val    `json:"field,omitempty"`
	V     *Val    `json:"v,omitempty"`
	Cmp   string  `json:"cmp,omitempty"`
	Lo    *Val    `json:"lo,omitempty"` // nil = open end
	Hi    *Val    `json:"hi,omitempty"`
	IncLo bool    `json:"inclo,omitempty"` // '[' rather than '{'
	IncHi bool    `json:"inchi,omitempty"` // ']' rather than '}'
	Vals  []*Val  `json:"vals,omitempty"`
	L     *Node   `json:"l,omitempty"`
	R     *Node   `json:"r,omitempty"`
	Arg   bool    `json:"arg,omitempty"` // suffix operator written with a number
	Dist  int     `json:"dist,omitempty"`
	Pow   float64 `json:"pow,omitempty"`
	ArgS  string  `json:"args,omitempty"` // source text of the number
	EqSgn bool    `json:"eqsgn,omitempty"`
}

// Precedence levels of the documented table OR < AND < NOT < ^ < ~ < - < + < field:.
func prec(k NKind) int {
	switch k {
	case NOr:
		return 1
	case NAnd:
		return 2
	case NNot:
		return 3
	case NBoost:
		return 4
	case NFuzzy:
		return 5
	case NMustNot:
		return 6
	case NMust:
		return 7
	}
	return 9
}

// IsLeaf reports whether the node is a leaf form (no operator children).
func (n *Node) IsLeaf() bool { return n.K <= NList }

// Expr builds the expected expression (no default field) through the public
// constructors, the way the documented grammar composes them.
func (n *Node) Expr() *expr.Expression {
	switch n.K {
	case NTerm:
		return n.V.Leaf()
	case NField:
		return expr.Eq(n.Field.Leaf(), n.V.Leaf())
	case NCmp:
		switch n.Cmp {
		case ">":
			return expr.GREATER(n.Field.Leaf(), n.V.Leaf())
		case ">=":
			return expr.GREATEREQ(n.Field.Leaf(), n.V.Leaf())
		case "<":
			return expr.LESS(n.Field.Leaf(), n.V.Leaf())
		default:
			return expr.LESSEQ(n.Field.Leaf(), n.V.Leaf())
		}
	case NRange:
		lo, hi := expr.WILD("*"), expr.WILD("*")
		if n.Lo != nil {
			lo = n.Lo.Leaf()
		}
		if n.Hi != nil {
			hi = n.Hi.Leaf()
		}
		return expr.Rang(n.Field.Leaf(), lo, hi, n.IncLo && n.IncHi)
	case NList:
		lits := make([]*expr.Expression, len(n.Vals))
		for i, v := range n.Vals {
			lits[i] = v.Leaf()
		}
		return expr.IN(n.Field.Leaf(), expr.LIST(lits))
	case NGroup:
		return expr.Eq(n.Field.Leaf(), n.L.Expr())
	case NAnd:
		return expr.AND(n.L.Expr(), n.R.Expr())
	case NOr:
		return expr.OR(n.L.Expr(), n.R.Expr())
	case NNot:
		return expr.NOT(n.L.Expr())
	case NMust:
		return expr.MUST(n.L.Expr())
	case NMustNot:
		return expr.MUSTNOT(n.L.Expr())
	case NBoost:
		if n.Arg {
			return expr.BOOST(n.L.Expr(), n.Pow)
		}
		return expr.BOOST(n.L.Expr(), 1.0)
	case NFuzzy:
		if n.Arg {
			return expr.FUZZY(n.L.Expr(), n.Dist)
		}
		return expr.FUZZY(n.L.Expr(), 1)
	}
	panic("gen: unknown node kind")
}

// Walk visits nodes in preorder; the callback receives the preorder id.
func (n *Node) Walk(fn func(id int, n *Node)) {
	id := 0
	var rec func(*Node)
	rec = func(x *Node) {
		if x == nil {
			return
		}
		my := id
		id++
		fn(my, x)
		rec(x.L)
		rec(x.R)
	}
	rec(n)
}

// Size returns the number of nodes.
func (n *Node) Size() int {
	c := 0
	n.Walk(func(int, *Node) { c++ })
	return c
}

// Leaves returns the number of leaf nodes.
func (n *Node) Leaves() int {
	c := 0
	n.Walk(func(_ int, x *Node) {
		if x.IsLeaf() {
			c++
		}
	})
	return c
}

// Depth returns the operator depth (a leaf has depth 0).
func (n *Node) Depth() int {
	if n == nil || n.IsLeaf() {
		return 0
	}
	d := n.L.Depth()
	if r := n.R.Depth(); r > d {
		d = r
	}
	return d + 1
}

// Shape is a canonical string of the tree's structure (kinds only, no values).
func (n *Node) Shape() string {
	if n == nil {
		return ""
	}
	switch n.K {
	case NTerm:
		return "t" + n.V.K.String()[:1]
	case NField:
		return "f" + n.V.K.String()[:1]
	case NCmp:
		return "c" + n.Cmp + n.V.K.String()[:1]
	case NRange:
		b := func(v *Val) string {
			if v == nil {
				return "*"
			}
			return v.K.String()[:1]
		}
		o, c := "{", "}"
		if n.IncLo {
			o = "["
		}
		if n.IncHi {
			c = "]"
		}
		return "r" + o + b(n.Lo) + b(n.Hi) + c
	case NList:
		return fmt.Sprintf("l%d", len(n.Vals))
	case NGroup:
		return "g(" + n.L.Shape() + ")"
	case NAnd, NOr:
		return "(" + n.L.Shape() + " " + n.K.String() + " " + n.R.Shape() + ")"
	case NBoost, NFuzzy:
		a := ""
		if n.Arg {
			a = "n"
		}
		return "(" + n.L.Shape() + ")" + n.K.String() + a
	default:
		return n.K.String() + "(" + n.L.Shape() + ")"
	}
}
