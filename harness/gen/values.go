package gen

import (
	"math"
	"strconv"
	"strings"
	"unicode/utf8"

	"pgregory.net/rapid"
)

// IsNumeric reports whether Go's own number syntax accepts the text - the widest
// reading of "looks like a number".
func IsNumeric(s string) bool {
	if _, err := strconv.Atoi(s); err == nil {
		return true
	}
	if _, err := strconv.ParseFloat(s, 64); err == nil {
		return true
	}
	// range errors still mean "number syntax"
	if _, err := strconv.ParseFloat(s, 64); err != nil {
		if ne, ok := err.(*strconv.NumError); ok && ne.Err == strconv.ErrRange {
			return true
		}
	}
	return false
}

// IsKeyword reports whether the text is AND/OR/NOT/TO in any letter case.
func IsKeyword(s string) bool {
	switch strings.ToUpper(s) {
	case "AND", "OR", "NOT", "TO":
		return true
	}
	return false
}

// isBareRune: runes a bare word may contain without a backslash under the
// harness's conservative rule (letters, digits, underscore; '.' and '-' inside).
func isBareRune(r rune, first bool) bool {
	if r >= 'a' && r <= 'z' || r >= 'A' && r <= 'Z' || r >= '0' && r <= '9' || r == '_' {
		return true
	}
	if !first && (r == '.' || r == '-') {
		return true
	}
	return false
}

// PlainWordOK reports whether s can be written as a bare word without escapes and
// denote the string s: only bare runes, not numeric, not a keyword.
func PlainWordOK(s string) bool {
	if s == "" || IsNumeric(s) || IsKeyword(s) {
		return false
	}
	for i, r := range s {
		if !isBareRune(r, i == 0) {
			return false
		}
	}
	return true
}

// StringVal writes a string value the simplest sound way: bare word when
// possible, otherwise a quoted phrase (s must not contain '"').
func StringVal(s string) *Val {
	if PlainWordOK(s) {
		return Word(s)
	}
	return Quoted(s)
}

var simpleWords = []string{"customer_id_1", "customer_id_2", "2024-01-01T00.00.00Z", "2024-01-01T23.59.59Z", "a", "b", "c", "foo", "bar", "x1", "k_v", "go", "The", "z.y", "n-m", "andy", "ort", "nota", "tom"}

var fieldNames = []string{"İd", "straße", "a", "b", "c", "f", "title", "age_in_months", "x.y", "k-v", "f1", "1a", "Sz"}

// HostilePool is the shared pool of hostile string fragments.
var HostilePool = []string{
	"'", "''", `"`, `\`, `\\`, ";", "--", "/*", "*/", "$1", "?", "%", "_", ",", ", ", "(", ")", "[", "]", "{", "}",
	"\n", "\r\n", "\t", " ", "NaN", "Inf", "-Inf", "Infinity", "0x1p-2", "1_000", "1e400", "TRUE", "NULL", "null",
	"AND", "or", "NOT", "to", "é", "ü", "日本", "é", "‏", "\U0001F600", "�", ":", "=", ">", "<", "+", "-",
	"~", "^", "*", "/", "//", "'; DROP TABLE t; --", "' OR '1'='1", `" OR ""="`, "E'\\''", "$$", "U&'\\0041'", "\\'", "x'y",
	`"a"`, `"a"."b"`, `"t"."a" IS NULL OR "t"."b"`, `a" OR "b`, `a" = 'x' OR "b`, `") OR ("`, `"a"::text`, `"a" -- `, `a"."b`, `'a' OR 'b'`, `1 OR 1=1`, `x') OR ('1'='1`,
	"İ", "ß", "ǅ", "ﬁ", "Å", "ı", "ſ", "aŉd", "e\u0301\u0301", "\u202eabc", "\u200d", "\U0001F468\u200d\U0001F469", "\U00010000", "\uFFFE", "\uE000",
	"\v", "\f", "\u0085", "\u00a0", "\u2028", "\u3000", "a  b", "x \t y",
	`\u2024`, `D:\data\u2024\report`, `\x41`, `\t`, `\0`, `\u00e9`, "%41", "&amp;", "&#x41;", `\N{DASH}`, "${HOME}", "{{x}}", "%(a)s",
	"&&", "||", "a||b", "x && y", "!", "!=", "==", "<>", "->", "=>", "::", "..", "@", "#", "|", "&", "`", "${x}", "%s", "\\n", "\\\\*", "a\\\\b",
	"00501", "09999", "10", "20", "1e3", "2.50", "-7", "+7", "007", "1_000", " 5", "5 ", "0x10",
	"1", "0", "-1", "5.0", "1e5", ".5", "٣", "-٣", "-३", "-３", "010", "0x1F", "min", `"min":`, `"max":`, `"left":`, "{", "}}", "%!s(int=1)", "%!", "%d",
}

// GenHostileString draws a valid-UTF-8, NUL-free string built from pool fragments
// and random runes. quoteFree removes '"'.
func GenHostileString(quoteFree bool) *rapid.Generator[string] {
	return rapid.Custom(func(t *rapid.T) string {
		n := rapid.IntRange(0, 5).Draw(t, "nfrag")
		var b strings.Builder
		for i := 0; i < n; i++ {
			switch rapid.IntRange(0, 3).Draw(t, "fragkind") {
			case 0, 1:
				b.WriteString(rapid.SampledFrom(HostilePool).Draw(t, "pool"))
			case 2:
				b.WriteString(rapid.StringOfN(rapid.RuneFrom([]rune("abcXYZ019 _-.")), 1, 6, -1).Draw(t, "ascii"))
			default:
				b.WriteString(rapid.StringN(1, 4, -1).Draw(t, "runes"))
			}
		}
		s := b.String()
		s = strings.ReplaceAll(s, "\x00", "")
		if quoteFree {
			s = strings.ReplaceAll(s, `"`, "")
		}
		if !utf8.ValidString(s) {
			s = strings.ToValidUTF8(s, "")
		}
		return s
	})
}

// GenWordVal draws a simple bare word.
func GenWordVal() *rapid.Generator[*Val] {
	return rapid.Custom(func(t *rapid.T) *Val {
		if rapid.IntRange(0, 9).Draw(t, "wk") < 8 {
			return Word(rapid.SampledFrom(simpleWords).Draw(t, "w"))
		}
		if rapid.IntRange(0, 3).Draw(t, "escw") == 0 {
			// escaped words with awkward endings: escaped whitespace, escaped backslash
			if rapid.IntRange(0, 3).Draw(t, "sq") == 0 {
				// single-quoted phrases keep their quotes (pinned by the repository's tests)
				return RawWord(rapid.SampledFrom([]string{"'s t'", "'x'", "'red apple'", "'a*'", `'"b'`, `'say "hi" now'`, `'"'`}).Draw(t, "sqw"))
			}
			return EscapedWord(rapid.SampledFrom([]string{"trail ", "dir\\", "c:\\", "tab\t", "a b", "x\\y", "end\n"}).Draw(t, "ew"))
		}
		s := rapid.StringMatching(`[a-z][a-z0-9_]{0,6}`).Draw(t, "rw")
		if !PlainWordOK(s) {
			s = "w" + s + "x"
		}
		return Word(s)
	})
}

// GenQuotedVal draws a quoted phrase; hostile selects the hostile pool.
func GenQuotedVal(hostile bool) *rapid.Generator[*Val] {
	return rapid.Custom(func(t *rapid.T) *Val {
		if hostile {
			return Quoted(GenHostileString(true).Draw(t, "qs"))
		}
		return Quoted(rapid.SampledFrom([]string{"q r", "The Right Way", "a", "5", "x AND y", "a:b", "(z)", " lead", "NOT", "1.5", "foo bar", `C:\tmp\`, `a\`, `x\ y\`, "50%", "%d", "web-frontend-01", "web-frontend-02", "w*", "/r/"}).Draw(t, "q"))
	})
}

var intPool = []int{12345678901, 123456789012, 0, 1, -1, 2, 5, 7, 10, 22, -3, -20, 200, 2147483647, -2147483648, 2147483648, 9007199254740993, math.MaxInt64, math.MinInt64}

// intLits are integers written in unusual but decimal ways.
var intLits = []string{"010", "007", "-017", "00", "0100", "-0", "02134", "08", "0019"}

// GenIntVal draws an integer.
func GenIntVal() *rapid.Generator[*Val] {
	return rapid.Custom(func(t *rapid.T) *Val {
		if rapid.IntRange(0, 7).Draw(t, "lit") == 0 {
			return IntSrc(rapid.SampledFrom(intLits).Draw(t, "il"))
		}
		if rapid.Bool().Draw(t, "pooled") {
			return Int(rapid.SampledFrom(intPool).Draw(t, "i"))
		}
		return Int(rapid.IntRange(-1000, 1000).Draw(t, "ri"))
	})
}

var floatPool = []string{"5e-324", "2.2250738585072014e-308", "1E5", "1e-7", "0.1", "0.30000000000000004", "123456789012345678.5", "0.123456789", "52.52000659", "1.7976931348623157e308", "1234.56789", "-0.000001234567891", "1.5", "0.5", "-2.25", "10.1", "1.2", "0.001", "3.14159", "-0.75", "5.0", "100.125", "1e3", "2.5e-3", "12345678.875", "100000000000000020.0", "9007199254740993.0", "1e17", "18446744073709551616.0", "0.0", "-0.0", "0.00", "0e0"}

// GenFloatVal draws a decimal written so that Go prints back the same number.
func GenFloatVal() *rapid.Generator[*Val] {
	return rapid.Custom(func(t *rapid.T) *Val {
		if rapid.Bool().Draw(t, "pooled") {
			return Float(rapid.SampledFrom(floatPool).Draw(t, "f"))
		}
		whole := rapid.IntRange(-500, 500).Draw(t, "whole")
		frac := rapid.SampledFrom([]string{"5", "25", "75", "125", "375", "0625", "1", "01", "001", "333"}).Draw(t, "frac")
		return Float(strconv.Itoa(whole) + "." + frac)
	})
}

var wildPool = []string{"w*", "*", "?", "b?z", "*x", "a*b*c", "??", "fo?*", "x.*", "a_b*", "*-*"}

// GenWildVal draws a wildcard pattern without escapes.
func GenWildVal() *rapid.Generator[*Val] {
	return rapid.Custom(func(t *rapid.T) *Val {
		if rapid.IntRange(0, 3).Draw(t, "pooled") > 0 {
			return Wild(rapid.SampledFrom(wildPool).Draw(t, "w"))
		}
		s := rapid.StringMatching(`[a-c]{0,2}[*?][a-c]{0,2}[*?]?`).Draw(t, "rw")
		return Wild(s)
	})
}

var regexpBodies = []string{"", "b", " ", "ab", "abc", "b [c]", `b "[c]`, `example.com\/foo\/.*`, "a|b", "^x$", "[0-9]+", "(a)(b)", "a AND b", "x:y"}

// GenRegexpVal draws a regexp token.
func GenRegexpVal() *rapid.Generator[*Val] {
	return rapid.Custom(func(t *rapid.T) *Val {
		return Regexp(rapid.SampledFrom(regexpBodies).Draw(t, "re"))
	})
}

// GenFieldVal draws a field name term.
func GenFieldVal(exotic bool) *rapid.Generator[*Val] {
	return rapid.Custom(func(t *rapid.T) *Val {
		k := rapid.IntRange(0, 19).Draw(t, "fk")
		if !exotic || k < 14 {
			return Word(rapid.SampledFrom(fieldNames).Draw(t, "f"))
		}
		switch k {
		case 14, 15:
			return EscapedWord(rapid.SampledFrom([]string{"foo bar", "a:b", "x(y)", "p+q", "né", "日本"}).Draw(t, "ef"))
		case 16, 17:
			return Quoted(rapid.SampledFrom([]string{"my field", "a", "select", "x;y", "it's"}).Draw(t, "qf"))
		default:
			return Word(rapid.SampledFrom([]string{"é", "ünï", "日本", "Ж"}).Draw(t, "uf"))
		}
	})
}

// ValKinds selects which value kinds a generator may draw.
type ValKinds struct {
	Word, Quoted, Int, Float, Wild, Regexp bool
	Hostile                                bool
}

// AllVals enables every value kind.
var AllVals = ValKinds{Word: true, Quoted: true, Int: true, Float: true, Wild: true, Regexp: true}

// PlainVals enables the plain (non-pattern) kinds.
var PlainVals = ValKinds{Word: true, Quoted: true, Int: true, Float: true}

// GenVal draws a value of one of the enabled kinds.
func GenVal(k ValKinds) *rapid.Generator[*Val] {
	return rapid.Custom(func(t *rapid.T) *Val {
		var opts []VKind
		add := func(on bool, kind VKind, weight int) {
			for i := 0; on && i < weight; i++ {
				opts = append(opts, kind)
			}
		}
		add(k.Word, VWord, 4)
		add(k.Quoted, VQuoted, 2)
		add(k.Int, VInt, 3)
		add(k.Float, VFloat, 2)
		add(k.Wild, VWild, 2)
		add(k.Regexp, VRegexp, 1)
		switch rapid.SampledFrom(opts).Draw(t, "vkind") {
		case VWord:
			return GenWordVal().Draw(t, "word")
		case VQuoted:
			return GenQuotedVal(k.Hostile).Draw(t, "quoted")
		case VInt:
			return GenIntVal().Draw(t, "int")
		case VFloat:
			return GenFloatVal().Draw(t, "float")
		case VWild:
			return GenWildVal().Draw(t, "wild")
		default:
			return GenRegexpVal().Draw(t, "regexp")
		}
	})
}

// WeirdNumerics are bare words that Go's number syntax accepts (or nearly accepts)
// in surprising ways; they are printed as raw terms (their meaning is left to M1).
var WeirdNumerics = []string{"NaN", "nan", "Inf", "inf", "Infinity", "infinity", "0x1p-2", "0X1P+2", "1e400", "1_000", "0x10", "5.", "1e5", "1E-5", "007", "-0", "-0.0", "1e-400", "9223372036854775807", "9223372036854775808", "-9223372036854775808", "18446744073709551616", "0b101", "0o17", "0x1F", "010", "-017", "٣", "-٣", "-３", "1.7976931348623157e308"}

// RawWord makes a value that is printed verbatim; only its Src is meaningful.
func RawWord(src string) *Val { return &Val{K: VWord, Src: src, S: src} }
