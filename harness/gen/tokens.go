package gen

// Sym makes a symbol token.
func Sym(s string) Tok { return Tok{Text: s, Class: TSym, Sym: s, Node: -1} }

// Kw makes a keyword token written as text.
func Kw(text, canon string) Tok { return Tok{Text: text, Class: TKw, Sym: canon, Node: -1} }

// Term makes a term token from a value.
func Term(v *Val) Tok { return Tok{Text: v.Src, Class: TTerm, Val: v, Node: -1} }

// RawTerm makes a term token whose meaning the harness leaves to M1.
func RawTerm(text string) Tok { return Tok{Text: text, Class: TTerm, Node: -1} }

// Structural are the 18 structural tokens.
func Structural() []Tok {
	var out []Tok
	for _, s := range []string{":", "=", ">", "<", "(", ")", "[", "]", "{", "}", "+", "-", "~", "^"} {
		out = append(out, Sym(s))
	}
	for _, k := range []string{"TO", "AND", "OR", "NOT"} {
		out = append(out, Kw(k, k))
	}
	return out
}

// FullAlphabet is the 37-token alphabet of G1.
func FullAlphabet() []Tok {
	out := []Tok{
		Term(Word("a")), Term(Word("b")), Term(Int(5)), Term(Int(-3)), Term(IntSrc("010")), Term(Float("1.5")),
		Term(Quoted("q r")), Term(Quoted("")), Term(Wild("w*")), Term(Wild("?")), Term(Wild("*")),
		Term(Regexp("r x")), Term(EscapedWord("x:y")), RawTerm(`'"s'`), Term(Quoted("w*")), Term(Quoted("/r/")), Term(EscapedWord("a*b")), RawTerm("'s t'"), Term(EscapedWord("x\\")),
	}
	return append(out, Structural()...)
}

// ReducedAlphabet has one representative per token class the code distinguishes.
func ReducedAlphabet() []Tok {
	out := []Tok{Term(Word("a")), Term(Int(5)), Term(Quoted("q")), Term(Wild("w*"))}
	return append(out, Structural()...)
}

// BoolAlphabet focuses on operators, grouping and fields (10 tokens).
func BoolAlphabet() []Tok {
	return []Tok{Term(Word("a")), Term(Int(5)), Sym(":"), Sym("("), Sym(")"), Kw("OR", "OR"), Kw("AND", "AND"), Kw("NOT", "NOT"), Sym("+"), Sym("~")}
}

// RangeAlphabet focuses on ranges and brackets (10 tokens).
func RangeAlphabet() []Tok {
	return []Tok{Term(Word("a")), Term(Wild("*")), Sym(":"), Sym("["), Sym("]"), Sym("{"), Sym("}"), Kw("TO", "TO"), Sym("("), Sym(")")}
}

// UnaryAlphabet focuses on prefix and suffix operators (11 tokens).
func UnaryAlphabet() []Tok {
	return []Tok{Term(Word("a")), Term(Int(2)), Sym(":"), Sym("("), Sym(")"), Sym("+"), Sym("-"), Sym("~"), Sym("^"), Kw("NOT", "NOT"), RawTerm("nan")}
}

// CmpAlphabet focuses on comparisons and the = spelling of a field (10 tokens).
func CmpAlphabet() []Tok {
	return []Tok{Term(Word("a")), Term(Int(5)), Term(Quoted("q")), Sym(":"), Sym(">"), Sym("<"), Sym("="), Sym("("), Sym(")"), Sym("~")}
}

// RangeFrames calls fn with token sequences built around one range: "a :" followed by
// every five-token sequence over the range alphabet; "a : [ b TO" followed by every
// sequence of length 1..4 over a small operator alphabet; and "a : [" + every sequence of
// length 1..3 over that alphabet + "TO c ]". A complete range takes seven tokens, which
// is more than the plain enumerations reach in the quick tier. Sharded like EnumSeqs.
func RangeFrames(shard, nshards int, fn func([]Tok)) {
	a, colon, open, to, closeB := Term(Word("a")), Sym(":"), Sym("["), Kw("TO", "TO"), Sym("]")
	b, c := Term(Word("b")), Term(Word("c"))
	EnumSeqs(RangeAlphabet(), 5, shard, nshards, func(seq []Tok) {
		if len(seq) == 5 {
			fn(append([]Tok{a, colon}, seq...))
		}
	})
	inner := []Tok{c, Term(Int(5)), Sym("("), Sym(")"), Sym("]"), Sym("}"), Sym("~"), Kw("NOT", "NOT"), Sym("+"), Term(Wild("*"))}
	EnumSeqs(inner, 4, shard, nshards, func(seq []Tok) {
		fn(append([]Tok{a, colon, open, b, to}, seq...))
	})
	EnumSeqs(inner, 3, shard, nshards, func(seq []Tok) {
		fn(append(append([]Tok{a, colon, open}, seq...), to, c, closeB))
	})
}

// EnumSeqs calls fn with every token sequence over the alphabet of length 1..maxLen,
// restricted to the sequences of this shard (round robin by running index). The
// slice passed to fn is reused. It returns the number of sequences of all shards.
func EnumSeqs(alpha []Tok, maxLen, shard, nshards int, fn func([]Tok)) int64 {
	if nshards < 1 {
		nshards = 1
	}
	var total int64
	idx := make([]int, maxLen)
	seq := make([]Tok, maxLen)
	for l := 1; l <= maxLen; l++ {
		for i := 0; i < l; i++ {
			idx[i] = 0
			seq[i] = alpha[0]
		}
		for {
			if int(total%int64(nshards)) == shard {
				fn(seq[:l])
			}
			total++
			p := l - 1
			for p >= 0 {
				idx[p]++
				if idx[p] < len(alpha) {
					seq[p] = alpha[idx[p]]
					break
				}
				idx[p] = 0
				seq[p] = alpha[0]
				p--
			}
			if p < 0 {
				break
			}
		}
	}
	return total
}

// JoinSpace joins tokens with single spaces.
func JoinSpace(toks []Tok) string {
	n := 0
	for _, t := range toks {
		n += len(t.Text) + 1
	}
	b := make([]byte, 0, n)
	for i, t := range toks {
		if i > 0 {
			b = append(b, ' ')
		}
		b = append(b, t.Text...)
	}
	return string(b)
}
