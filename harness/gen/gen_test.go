package gen

import (
	"encoding/json"
	"flag"
	"os"
	"testing"

	"pgregory.net/rapid"
)

func TestPrinterPrecedence(t *testing.T) {
	a, b, c := &Node{K: NTerm, V: Word("a")}, &Node{K: NTerm, V: Word("b")}, &Node{K: NTerm, V: Word("c")}
	for _, tc := range []struct {
		n    *Node
		want string
	}{
		{&Node{K: NOr, L: a, R: &Node{K: NAnd, L: b, R: c}}, "a OR b AND c"},
		{&Node{K: NAnd, L: &Node{K: NOr, L: a, R: b}, R: c}, "( a OR b ) AND c"},
		{&Node{K: NAnd, L: a, R: &Node{K: NAnd, L: b, R: c}}, "a AND ( b AND c )"},
		{&Node{K: NAnd, L: &Node{K: NNot, L: a}, R: b}, "NOT a AND b"},
		{&Node{K: NNot, L: &Node{K: NAnd, L: a, R: b}}, "NOT ( a AND b )"},
		{&Node{K: NBoost, L: &Node{K: NMust, L: a}, Arg: true, ArgS: "2", Pow: 2}, "+ a ^ 2"},
		{&Node{K: NMust, L: &Node{K: NBoost, L: a, Arg: true, ArgS: "2", Pow: 2}}, "+ ( a ^ 2 )"},
		{&Node{K: NFuzzy, L: &Node{K: NBoost, L: a, Arg: true, ArgS: "2", Pow: 2}, Arg: true, ArgS: "3", Dist: 3}, "( a ^ 2 ) ~ 3"},
		{&Node{K: NNot, L: &Node{K: NNot, L: a}}, "NOT ( NOT a )"},
		{&Node{K: NMust, L: &Node{K: NNot, L: a}}, "+ ( NOT a )"},
		{&Node{K: NMustNot, L: &Node{K: NMust, L: a}}, "- + a"},
	} {
		if got := Text(tc.n, Opts{}); got != tc.want {
			t.Errorf("got %q want %q", got, tc.want)
		}
	}
}

func TestEnumCounts(t *testing.T) {
	n := EnumSeqs(ReducedAlphabet(), 3, 0, 1, func([]Tok) {})
	if n != 22+22*22+22*22*22 {
		t.Errorf("EnumSeqs count %d", n)
	}
	var a, b int64
	EnumSeqs(BoolAlphabet(), 3, 0, 2, func([]Tok) { a++ })
	EnumSeqs(BoolAlphabet(), 3, 1, 2, func([]Tok) { b++ })
	if a+b != 10+100+1000 {
		t.Errorf("shards do not partition: %d + %d", a, b)
	}
}

func TestGeneratedValuesAreWhatTheyClaim(t *testing.T) {
	rapid.Check(t, func(rt *rapid.T) {
		v := GenVal(AllVals).Draw(rt, "v")
		switch v.K {
		case VWord:
			// single-quoted phrases are one token whose value keeps the quotes (RawWord)
			if sq := len(v.Src) >= 2 && v.Src[0] == '\'' && v.Src[len(v.Src)-1] == '\''; !sq && !PlainWordOK(v.S) && v.Src == v.S {
				rt.Fatalf("bare word %q is not a plain word", v.S)
			}
		case VInt, VFloat:
			if !IsNumeric(v.Src) {
				rt.Fatalf("number %q", v.Src)
			}
		}
	})
}

func TestValJSONLossless(t *testing.T) {
	for _, s := range []string{"a", "\x00", "\xff\xfe", "é\xc3", ""} {
		v := Quoted(s)
		raw, err := json.Marshal(&Node{K: NTerm, V: v})
		if err != nil {
			t.Fatal(err)
		}
		var n Node
		if err := json.Unmarshal(raw, &n); err != nil {
			t.Fatal(err)
		}
		if n.V.S != s || n.V.Src != v.Src {
			t.Errorf("%q came back as %q / %q", s, n.V.S, n.V.Src)
		}
		tk := Term(v)
		raw, _ = json.Marshal(tk)
		var t2 Tok
		_ = json.Unmarshal(raw, &t2)
		if t2.Text != tk.Text || t2.Val.S != s {
			t.Errorf("token %q came back as %q", tk.Text, t2.Text)
		}
	}
}

// TestMain pins rapid's seed: `./check setup` must be a pure function of the tree.
func TestMain(m *testing.M) {
	flag.Parse()
	if f := flag.Lookup("rapid.seed"); f != nil && f.Value.String() == "0" {
		_ = flag.Set("rapid.seed", "20261002")
	}
	_ = flag.Set("rapid.nofailfile", "true")
	_ = flag.Set("rapid.checks", "2000")
	os.Exit(m.Run())
}
