package gen

import (
	"strings"

	"pgregory.net/rapid"
)

// JSONScalars is the pool of JSON scalar / small texts put into member positions.
var JSONScalars = []string{
	`""`, `"*"`, `"?"`, `"/"`, `"//"`, `"/x/"`, `"a"`, `"a*"`, `"a b"`, `"it's"`, `"a\"b"`, `"\u0000"`, `"é"`,
	`null`, `true`, `false`, `0`, `-0`, `1`, `-1`, `5`, `1.5`, `5.0`, `1e999`, `-1e999`, `1e-999`, `9007199254740993`, `9223372036854775808`, `1E5`,
	`[]`, `{}`, `[[]]`, `[1]`, `["a"]`, `[null]`, `["a","b"]`, `[1,"a",2.5]`, `[{}]`, `{"left":"a"}`, `{"min":1,"max":2}`, `"NaN"`, `"Inf"`,
	`{"left":"c","operator":"RANGE"}`, `{"left":"c","operator":"RANGE","right":"x"}`, `{"left":"c","operator":"LIKE"}`, `{"left":"c","operator":"IN","right":5}`, `{"operator":"NOT"}`, `{"left":["a","b"],"operator":"LIST"}`, `{"x":1}`, `{"left":5,"operator":"WILD"}`, `{"left":5,"operator":"REGEXP"}`, `{"left":"a*","operator":"LITERAL"}`, `{"left":1.5,"operator":"LITERAL"}`, `{"left":"a*","operator":"WILD"}`,
	// patterns whose last character is a lone backslash, and escaped wildcards
	// (the pattern translators walk these byte by byte)
	`"b*\\"`, `"\\"`, `"\\*"`, `"a\\?b*"`, `{"left":"b?\\","operator":"WILD"}`,
}

// OperatorNames: the valid operator names plus near misses.
var OperatorNames = []string{"AND", "OR", "EQUALS", "LIKE", "NOT", "RANGE", "MUST", "MUST_NOT", "BOOST", "FUZZY", "LITERAL", "WILD", "REGEXP", "GREATER", "LESS", "GREATER_EQ", "LESS_EQ", "IN", "LIST",
	"and", "Equals", "", "UNDEFINED", "XOR", "IN ", "RANGE\u0000"}

var binaryOps = []string{"AND", "OR"}
var fieldOps = []string{"EQUALS", "LIKE", "GREATER", "LESS", "GREATER_EQ", "LESS_EQ"}
var unaryOps = []string{"NOT", "MUST", "MUST_NOT", "BOOST", "FUZZY"}

func jscalar(t *rapid.T) string { return rapid.SampledFrom(JSONScalars).Draw(t, "scalar") }

func jstring(t *rapid.T) string {
	return rapid.SampledFrom([]string{`"a"`, `"b"`, `"foo bar"`, `"a*"`, `"?"`, `"/re/"`, `""`, `"é"`, `"5"`, `"x\"y"`, `"*"`, `"it's"`}).Draw(t, "str")
}

func jvalue(t *rapid.T) string {
	switch rapid.IntRange(0, 5).Draw(t, "valkind") {
	case 0:
		return rapid.SampledFrom([]string{"1", "5", "-3", "1.5", "0", "200", "2.25", "9007199254740993"}).Draw(t, "num")
	case 1:
		return jscalar(t)
	default:
		return jstring(t)
	}
}

// well-formed expression document (the population that passes Validate)
func jexpr(t *rapid.T, depth int, corrupt bool) string {
	c := func(p int) bool { return corrupt && rapid.IntRange(0, p).Draw(t, "corrupt") == 0 }
	if depth <= 0 || rapid.IntRange(0, 3+depth).Draw(t, "leaf") < 2 {
		// leaf-level: scalar or field expression
		switch rapid.IntRange(0, 7).Draw(t, "leafkind") {
		case 0:
			return jvalue(t)
		case 1: // range
			mn, mx := jvalue(t), jvalue(t)
			if c(6) {
				mn = jexpr(t, depth-1, corrupt)
			}
			incl := rapid.SampledFrom([]string{"true", "false"}).Draw(t, "incl")
			if c(8) {
				incl = jscalar(t)
			}
			body := `"min":` + mn + `,"max":` + mx + `,"inclusive":` + incl
			if c(8) {
				body = `"min":` + mn
			}
			if c(10) {
				body = `"max":` + mx + `,"min":` + mn + `,"left":1`
			}
			return `{"left":` + jfield(t, c) + `,"operator":"RANGE","right":{` + body + `}}`
		case 2: // in-list
			n := rapid.IntRange(0, 4).Draw(t, "n")
			var items []string
			for i := 0; i < n; i++ {
				if c(8) {
					items = append(items, jexpr(t, depth-1, corrupt))
				} else {
					items = append(items, jvalue(t))
				}
			}
			list := `{"left":[` + strings.Join(items, ",") + `],"operator":"LIST"}`
			if c(8) {
				list = jscalar(t)
			}
			return `{"left":` + jfield(t, c) + `,"operator":"IN","right":` + list + `}`
		default:
			op := rapid.SampledFrom(fieldOps).Draw(t, "fop")
			right := jvalue(t)
			if rapid.IntRange(0, 6).Draw(t, "nested") == 0 {
				right = jexpr(t, depth-1, corrupt)
			}
			return `{"left":` + jfield(t, c) + `,"operator":"` + op + `","right":` + right + `}`
		}
	}
	switch rapid.IntRange(0, 2).Draw(t, "opclass") {
	case 0:
		op := rapid.SampledFrom(binaryOps).Draw(t, "bop")
		if c(10) {
			op = rapid.SampledFrom(OperatorNames).Draw(t, "badop")
		}
		l, r := jexpr(t, depth-1, corrupt), jexpr(t, depth-1, corrupt)
		switch {
		case c(10):
			return `{"left":` + l + `,"operator":"` + op + `"}`
		case c(10):
			return `{"operator":"` + op + `","right":` + r + `}`
		case c(12):
			return `{"left":` + l + `,"operator":"` + op + `","right":` + r + `,"left":` + jscalar(t) + `}`
		}
		return `{"left":` + l + `,"operator":"` + op + `","right":` + r + `}`
	default:
		op := rapid.SampledFrom(unaryOps).Draw(t, "uop")
		extra := ""
		if op == "BOOST" && rapid.Bool().Draw(t, "haspow") {
			extra = `,"power":` + rapid.SampledFrom([]string{"2", "1.5", "0", "-1", "1", "1e999", `"2"`, "null", "[]"}).Draw(t, "pow")
		}
		if op == "FUZZY" && rapid.Bool().Draw(t, "hasdist") {
			extra = `,"distance":` + rapid.SampledFrom([]string{"2", "0", "-2", "1", "1.5", `"2"`, "null", "99999999999999999999"}).Draw(t, "dist")
		}
		if c(10) {
			extra += `,"right":` + jexpr(t, depth-1, corrupt)
		}
		return `{"left":` + jexpr(t, depth-1, corrupt) + `,"operator":"` + op + `"` + extra + `}`
	}
}

func jfield(t *rapid.T, c func(int) bool) string {
	if c(8) {
		return jscalar(t)
	}
	return rapid.SampledFrom([]string{`"a"`, `"b"`, `"my field"`, `"x\"y"`, `""`, `"é"`, `5`, `"a*"`}).Draw(t, "field")
}

// GenJSONDoc draws a JSON document aimed at the expression decoder: mostly
// well-formed (so that many pass Validate), optionally with member-level corruption.
func GenJSONDoc(corrupt bool) *rapid.Generator[string] {
	return rapid.Custom(func(t *rapid.T) string {
		return jexpr(t, rapid.IntRange(0, 4).Draw(t, "depth"), corrupt)
	})
}
