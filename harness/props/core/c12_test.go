package core

import (
	"bytes"
	"encoding/json"
	"fmt"
	"reflect"
	"strconv"
	"strings"
	"testing"
	"unicode/utf8"

	"github.com/grindlemire/go-lucene/pkg/driver"
	"github.com/grindlemire/go-lucene/pkg/lucene/expr"
	"github.com/grindlemire/go-lucene/verif/gen"
	"github.com/grindlemire/go-lucene/verif/model"
	"github.com/grindlemire/go-lucene/verif/report"
	"pgregory.net/rapid"
)

// walkLeaves visits every scalar leaf value of a tree.
func walkLeaves(x any, fn func(op expr.Operator, v any)) {
	switch v := x.(type) {
	case *expr.Expression:
		if v == nil {
			return
		}
		if isLeafExpr(v) {
			fn(v.Op, v.Left)
			return
		}
		walkLeaves(v.Left, fn)
		walkLeaves(v.Right, fn)
	case []*expr.Expression:
		for _, e := range v {
			walkLeaves(e, fn)
		}
	case *expr.RangeBoundary:
		if v != nil {
			walkLeaves(v.Min, fn)
			walkLeaves(v.Max, fn)
		}
	}
}

// c12Exempt is the property's own list of cases where deep equality is not
// required: a quoted string containing * or ?, a quoted /slash-delimited/ string,
// an integer-valued float.
func c12Exempt(e *expr.Expression) (bool, string) {
	why := ""
	walkLeaves(e, func(op expr.Operator, v any) {
		switch x := v.(type) {
		case string:
			if op == expr.Literal && strings.ContainsAny(x, "*?") {
				why = "literal-with-wildcard-char"
			}
			if op == expr.Literal && len(x) >= 1 && x[0] == '/' && x[len(x)-1] == '/' {
				why = "literal-slash-delimited"
			}
		case float64:
			if x == float64(int64(x)) {
				why = "integral-float"
			}
		}
	})
	return why != "", why
}

func fmtNum(f float64) string { return strconv.FormatFloat(f, 'g', -1, 64) }

type renderOut struct {
	SQL, Err   string
	PSQL, PErr string
	Params     string
}

// canonParams writes the two parameter lists so that equal strings mean equal lists.
// Parameters are compared by value: the property itself concedes that a whole number
// written as a float (5.0) comes back as an integer, so where one side holds an int and
// the other a float64 the two are the same value if the int converts to that float
// (5 and 5.0; 100000000000000020 and 1.0000000000000002e+17, whose JSON text is that
// integer). Within one kind the comparison is exact.
func canonParams(a, b []any) (string, string) {
	one := func(p any, asFloat bool) string {
		switch v := p.(type) {
		case int:
			if asFloat {
				return "n:" + fmtNum(float64(v))
			}
			return fmt.Sprintf("i:%d", v)
		case float64:
			if asFloat {
				return "n:" + fmtNum(v)
			}
			return "f:" + fmtNum(v)
		}
		return fmt.Sprintf("%T:%v", p, p)
	}
	isInt := func(p any) bool { _, ok := p.(int); return ok }
	isFloat := func(p any) bool { _, ok := p.(float64); return ok }
	var sa, sb []string
	for i := 0; i < len(a) || i < len(b); i++ {
		mixed := i < len(a) && i < len(b) && ((isInt(a[i]) && isFloat(b[i])) || (isFloat(a[i]) && isInt(b[i])))
		if i < len(a) {
			sa = append(sa, one(a[i], mixed))
		}
		if i < len(b) {
			sb = append(sb, one(b[i], mixed))
		}
	}
	return strings.Join(sa, " ; "), strings.Join(sb, " ; ")
}

func renderBoth(e *expr.Expression) (o renderOut, params []any, panicked any) {
	defer func() { panicked = recover() }()
	d := driver.NewPostgresDriver()
	s, err := d.Render(e)
	o.SQL = s
	if err != nil {
		o.Err = "error" // presence only: the property does not prescribe error texts
	}
	ps, pp, perr := d.RenderParam(e)
	o.PSQL = ps
	if perr != nil {
		o.PErr = "error"
	}
	params = pp
	return
}

func checkC12(c InCase) (f *report.Failure, nontrivial bool, cls string) {
	s := string(c.Input)
	if !utf8.ValidString(s) {
		return nil, false, "invalid-utf8-skipped"
	}
	var stage string
	defer func() {
		if r := recover(); r != nil {
			f = report.Failf("panic:"+stage, "%s panicked for query %s df=%q: %v", stage, c.Quoted, c.DF, r)
		}
	}()
	stage = "Parse"
	e, err := parseWith(s, c.DF)
	if err != nil {
		return nil, false, "rejected"
	}
	stage = "Marshal"
	b, err := json.Marshal(e)
	if err != nil {
		return report.Failf("encode", "json.Marshal of the tree of %s (df=%q) fails: %v; tree %#v", c.Quoted, c.DF, err, e), false, ""
	}
	stage = "Unmarshal"
	var d expr.Expression
	if err := json.Unmarshal(b, &d); err != nil {
		return report.Failf("decode", "json.Unmarshal of %s (encoding of %s) fails: %v", b, c.Quoted, err), false, ""
	}
	stage = "Validate"
	if err := expr.Validate(&d); err != nil {
		return report.Failf("decoded-invalid", "decoding %s (from %s) gives a tree that fails Validate: %v", b, c.Quoted, err), false, ""
	}
	if err := model.Shape(&d, model.ShapeOpts{AllowRetypedLeaves: true}); err != nil {
		return report.Failf("decoded-malformed", "decoding %s (from %s) gives a malformed tree: %v; %#v", b, c.Quoted, err, &d), false, ""
	}
	stage = "re-Marshal"
	b2, err := json.Marshal(&d)
	if err != nil || !bytes.Equal(b, b2) {
		return report.Failf("reencode", "re-encoding differs for %s:\n  first  %s\n  second %s (err %v)", c.Quoted, b, b2, err), false, ""
	}
	stage = "String"
	if s1, s2 := e.String(), d.String(); s1 != s2 {
		at := 0
		for at < len(s1) && at < len(s2) && s1[at] == s2[at] {
			at++
		}
		lo := at - 40
		if lo < 0 {
			lo = 0
		}
		w := func(s string) string {
			hi := at + 40
			if hi > len(s) {
				hi = len(s)
			}
			return s[lo:hi]
		}
		return report.Failf("string", "String() differs for %s at byte %d: original ...%q... decoded ...%q... (json %.300s)", c.Quoted, at, w(s1), w(s2), b), false, ""
	}
	stage = "Render"
	r1, pp1, p1 := renderBoth(e)
	r2, pp2, p2 := renderBoth(&d)
	r1.Params, r2.Params = canonParams(pp1, pp2)
	if p1 != nil || p2 != nil {
		if fmt.Sprint(p1) != fmt.Sprint(p2) {
			return report.Failf("render-panic", "rendering panics differently for %s: original %v decoded %v", c.Quoted, p1, p2), false, ""
		}
	} else if r1 != r2 {
		diff := func(what, a, z string) string {
			if a == z {
				return ""
			}
			at := 0
			for at < len(a) && at < len(z) && a[at] == z[at] {
				at++
			}
			lo := at - 30
			if lo < 0 {
				lo = 0
			}
			w := func(s string) string {
				hi := at + 50
				if hi > len(s) {
					hi = len(s)
				}
				return s[lo:hi]
			}
			return fmt.Sprintf(" %s differs at byte %d: original ...%q... decoded ...%q...;", what, at, w(a), w(z))
		}
		return report.Failf("render", "rendering differs for %s:%s%s%s%s%s (json %.200s)", c.Quoted, diff("inline SQL", r1.SQL, r2.SQL), diff("inline error", r1.Err, r2.Err), diff("parameterized SQL", r1.PSQL, r2.PSQL), diff("parameters", r1.Params, r2.Params), diff("parameterized error", r1.PErr, r2.PErr), b), false, ""
	}
	exempt, why := c12Exempt(e)
	if !reflect.DeepEqual(e, &d) {
		if !exempt {
			return report.Failf("deep-equal", "decoded tree differs from the original for %s (json %s) and none of the three documented exemptions applies:\n  original %#v\n  decoded  %#v", c.Quoted, b, e, &d), false, ""
		}
		cls = "differs-exempt:" + why
	} else {
		cls = "deep-equal"
	}
	// non-trivial: more than a single f:v and contains a range, list, non-default
	// boost/fuzzy, empty or non-ASCII string, or a number
	interesting := false
	nodes := 0
	var rec func(x any)
	rec = func(x any) {
		switch v := x.(type) {
		case *expr.Expression:
			if v == nil {
				return
			}
			nodes++
			if v.Op == expr.Range || v.Op == expr.In {
				interesting = true
			}
			if v.Op == expr.Boost || v.Op == expr.Fuzzy {
				if a, _ := model.FuzzyBoostArg(v); a != 1 {
					interesting = true
				}
			}
			rec(v.Left)
			rec(v.Right)
		case []*expr.Expression:
			for _, e := range v {
				rec(e)
			}
		case *expr.RangeBoundary:
			rec(v.Min)
			rec(v.Max)
		case string:
			if v == "" || len(v) != utf8.RuneCountInString(v) {
				interesting = true
			}
		case int, float64:
			interesting = true
		}
	}
	rec(e)
	return nil, nodes > 3 && interesting, cls
}

func init() {
	replayers["C12"] = func(raw json.RawMessage) *report.Failure {
		c, f := decodeIn(raw)
		if f != nil {
			return f
		}
		f, _, _ = checkC12(c)
		return f
	}
}

// jsonHostile are valid-UTF-8 strings aimed at the JSON layer.
var jsonHostile = []string{"", " ", `"min":`, `"min":"max":`, `{"left":1}`, "[1,2]", "null", "true", "5", "5.0", "1e5", "-0", "*", "?", "a*b", "/", "//", "/x/", "/*/", "/foo bar/", "/x y/ z", "/ /", "/a b/c d/", "a /b c/", "w* x", "? ?", "é", "日本", "\u2028", "\\", "\\\\", "a\\", "\t", "\n", "<>&", "\U0001F600", "\ufffd", "{", "}", "[", "]", ",", ":"}

func TestC12(t *testing.T) {
	cfg := report.Load()
	st := report.New("C12", cfg)
	defer st.Finish(t)
	st.Rule("valid-UTF-8 queries that Parse accepts: rapid trees over every operator and leaf form with JSON-hostile values (empty and non-ASCII strings, strings containing \"min\": / braces / * ? / slashes, int edges, decimals, boost powers and fuzzy distances incl. defaults, 0 and negatives), printed in several styles, with and without default field; plus the accepted part of the exhaustive token-sequence enumeration. Oracle: encode -> decode -> (Validate, shape) -> re-encode byte-identical; String() and both renderings (SQL, params, errors) identical; DeepEqual required unless the tree holds a quoted string with * or ?, a quoted /slash-delimited/ string or an integral float. Non-trivial = tree with > 3 nodes containing a range, list, non-default boost/fuzzy, empty / non-ASCII string or number; distinct by canonical JSON.")
	st.Assume("encoding/json is trusted", "on the decoded tree the shape predicate is applied without its two kind clauses (exactly the exempted re-typings)")
	regress(t, st, "C12")
	_ = activeFindings(st, "C12")

	run := func(stream string, c InCase) bool {
		st.Eval()
		f, nt, cls := checkC12(c)
		if f != nil {
			words := strings.Fields(string(c.Input))
			for changed := true; changed && len(words) > 1; {
				changed = false
				for i := range words {
					cand := append(append([]string(nil), words[:i]...), words[i+1:]...)
					cc := mkIn(strings.Join(cand, " "), c.DF, 0)
					if ff, _, _ := checkC12(cc); ff != nil && ff.Sub == f.Sub {
						words, c, f, changed = cand, cc, ff, true
						break
					}
				}
			}
			st.Violate(stream, c, f)
			return false
		}
		st.Class(cls)
		if nt {
			e, _ := parseWith(string(c.Input), c.DF)
			b, _ := json.Marshal(e)
			st.NonTrivial(string(b))
			st.Sample(stream+":"+cls, c.Quoted+" df="+c.DF)
		}
		return true
	}

	fullLen, redLen := 3, 4
	if cfg.Thorough() {
		fullLen, redLen = 4, 5
	}
	for _, en := range []struct {
		name  string
		alpha []gen.Tok
		n     int
	}{{"enum-full", gen.FullAlphabet(), fullLen}, {"enum-reduced", gen.ReducedAlphabet(), redLen}, {"enum-range", gen.RangeAlphabet(), redLen + 1}} {
		st.Stream(en.name, true, fmt.Sprintf("every token sequence of length 1..%d over %d tokens (only accepted ones are round-tripped), df in {none, dflt}", en.n, len(en.alpha)))
		gen.EnumSeqs(en.alpha, en.n, cfg.Shard, cfg.NShards, func(seq []gen.Tok) {
			s := gen.JoinSpace(seq)
			run(en.name, mkIn(s, "", len(seq)))
			run(en.name, mkIn(s, "dflt", len(seq)))
		})
	}

	tcfg := gen.ParseCfg
	tcfg.Vals.Hostile = true
	tcfg.MixedBracket = true
	dfGen := rapid.SampledFrom([]string{"", "", "dflt", "é f"})
	st.Rapid(t, "hostile-trees", cfg.N(14000, 3000000), func(rt *rapid.T) {
		tree := gen.GenTree(tcfg).Draw(rt, "tree")
		// sprinkle JSON-hostile strings into quoted positions
		tree.Walk(func(_ int, n *gen.Node) {
			repl := func(v **gen.Val) {
				if *v != nil && (*v).K == gen.VQuoted && rapid.IntRange(0, 2).Draw(rt, "jh") == 0 {
					*v = gen.Quoted(rapid.SampledFrom(jsonHostile).Draw(rt, "jhs"))
				}
			}
			if n.V != nil && rapid.IntRange(0, 11).Draw(rt, "escpat") == 0 {
				// words mixing escapes and wildcard characters (the decoder has to infer
				// the same leaf kind from the text as the parser did)
				n.V = gen.RawWord(rapid.SampledFrom([]string{`b\\*`, `a\*b*`, `c\:\\dir\\?`, `x\\?y`, `a\*b`, `what\?`, `\*`, `\\`, `p\/q*`, `\/x\/`, `b\\\\*`, `k\\\*`}).Draw(rt, "ep"))
			}
			if n.V != nil && n.K != gen.NCmp && rapid.IntRange(0, 11).Draw(rt, "weird") == 0 {
				n.V = gen.RawWord(rapid.SampledFrom(gen.WeirdNumerics).Draw(rt, "wn"))
			}
			if n.K == gen.NBoost && n.Arg && rapid.IntRange(0, 5).Draw(rt, "weirdpow") == 0 {
				n.ArgS = rapid.SampledFrom(gen.WeirdNumerics).Draw(rt, "wp")
			}
			if rapid.IntRange(0, 14).Draw(rt, "longval") == 0 {
				long := gen.Quoted(strings.Repeat(rapid.SampledFrom([]string{"lorem ipsum ", "x", "é", "a,b ", "\\"}).Draw(rt, "unit"), rapid.IntRange(100, 400).Draw(rt, "rep")))
				switch {
				case n.Lo != nil && n.Lo.IsString():
					n.Lo = long
				case n.Hi != nil && n.Hi.IsString():
					n.Hi = long
				case len(n.Vals) > 0:
					n.Vals[0] = long
				case n.V != nil && n.V.IsString():
					n.V = long
				}
			}
			repl(&n.V)
			repl(&n.Lo)
			repl(&n.Hi)
			for i := range n.Vals {
				repl(&n.Vals[i])
			}
		})
		o := genOpts(rt, tree, false)
		if rapid.IntRange(0, 3).Draw(rt, "juxta") == 0 {
			o.Juxta = map[int]bool{}
			for _, g := range andGaps(tree, o) {
				if g.eligible {
					o.Juxta[g.id] = true
				}
			}
		}
		pr := gen.Print(tree, o)
		if !run("hostile-trees", mkIn(gen.Join(pr.Toks, o), dfGen.Draw(rt, "df"), len(pr.Toks))) {
			rt.Fatalf("violation")
		}
	})
}
