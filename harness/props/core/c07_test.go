package core

import (
	"encoding/json"
	"fmt"
	"reflect"
	"sort"
	"testing"

	"github.com/grindlemire/go-lucene/verif/gen"
	"github.com/grindlemire/go-lucene/verif/report"
	"pgregory.net/rapid"
)

// gapInfo describes one AND node as a candidate for juxtaposition.
type gapInfo struct {
	id           int
	eligible     bool // may be written with nothing but whitespace at all
	demonstrated bool // of the kind the repository itself writes: term token on both sides
	leftKind     gen.NKind
}

// andGaps inspects the explicit print of a tree.
func andGaps(tree *gen.Node, o gen.Opts) []gapInfo {
	o.Juxta = nil
	pr := gen.Print(tree, o)
	var out []gapInfo
	tree.Walk(func(id int, n *gen.Node) {
		if n.K != gen.NAnd {
			return
		}
		// the AND keyword of node id is the token owned by id of class keyword AND
		sp := pr.Inner[id]
		at := -1
		lsp := pr.Span[id+1]
		for k := lsp[1]; k < sp[1]; k++ {
			if pr.Toks[k].Node == id && pr.Toks[k].Class == gen.TKw && pr.Toks[k].Sym == "AND" {
				at = k
				break
			}
		}
		if at <= 0 || at+1 >= len(pr.Toks) {
			return
		}
		l, r := pr.Toks[at-1], pr.Toks[at+1]
		g := gapInfo{id: id, eligible: true, leftKind: n.L.K}
		// a left operand ending in a bare ~ or ^ would take what follows as its number,
		// unless that is the keyword NOT, which cannot start a number
		if l.Class == gen.TSym && (l.Sym == "~" || l.Sym == "^") && !(r.Class == gen.TKw && r.Sym == "NOT") {
			g.eligible = false
		}
		g.demonstrated = g.eligible && l.Class == gen.TTerm && r.Class == gen.TTerm
		out = append(out, g)
	})
	return out
}

// JuxtaCase: a tree, how it is printed, and which AND nodes are juxtaposed.
type JuxtaCase struct {
	Tree  *gen.Node `json:"tree"`
	Opts  gen.Opts  `json:"opts"`
	Juxta []int     `json:"juxta"`
	Expl  string    `json:"explicit,omitempty"`
	Jux   string    `json:"juxtaposed,omitempty"`
}

func (c JuxtaCase) texts() (string, string) {
	o := c.Opts
	o.Juxta = nil
	expl := gen.Text(c.Tree, o)
	o.Juxta = map[int]bool{}
	for _, id := range c.Juxta {
		o.Juxta[id] = true
	}
	return expl, gen.Text(c.Tree, o)
}

func checkC07(c JuxtaCase) (f *report.Failure, accepted bool) {
	expl, jux := c.texts()
	defer func() {
		if r := recover(); r != nil {
			f = report.Failf("panic", "Parse panicked on %q / %q: %v", expl, jux, r)
		}
	}()
	gaps := map[int]gapInfo{}
	for _, g := range andGaps(c.Tree, c.Opts) {
		gaps[g.id] = g
	}
	allDemo := true
	for _, id := range c.Juxta {
		g, ok := gaps[id]
		if !ok || !g.eligible {
			return nil, false // not a case the property speaks about
		}
		if !g.demonstrated {
			allDemo = false
		}
	}
	te, ee := parseWith(expl, "")
	tj, ej := parseWith(jux, "")
	if ej == nil {
		accepted = true
		if ee != nil {
			return report.Failf("explicit-rejected", "juxtaposed %q is accepted but the same text with explicit AND, %q, is rejected: %v", jux, expl, ee), true
		}
		if !reflect.DeepEqual(te, tj) {
			return report.Failf("tree-differs", "juxtaposed %q\n   gives %#v\n explicit %q\n   gives %#v", jux, tj, expl, te), true
		}
		return nil, true
	}
	if ee == nil {
		// every juxtaposed gap is eligible (the two operands can be written next to each
		// other without the tokens running together): the property says the two texts
		// give the identical tree, so the juxtaposed one has to parse as well
		form := "whitespace between two term tokens, the form the README and tests use"
		if !allDemo {
			form = "an operand that starts with ( + - NOT or ends with a bracket next to the gap"
		}
		return report.Failf("juxtaposed-rejected", "explicit %q is accepted but %q (%s) is rejected: %v", expl, jux, form, ej), false
	}
	return nil, false
}

func init() {
	replayers["C07"] = func(raw json.RawMessage) *report.Failure {
		var c JuxtaCase
		if err := json.Unmarshal(raw, &c); err != nil {
			return report.Failf("replay", "bad case: %v", err)
		}
		f, _ := checkC07(c)
		return f
	}
}

func subsets(ids []int, fn func([]int)) {
	n := len(ids)
	for mask := 1; mask < 1<<n; mask++ {
		var s []int
		for i := 0; i < n; i++ {
			if mask&(1<<i) != 0 {
				s = append(s, ids[i])
			}
		}
		fn(s)
	}
}

func c07NonTrivial(tree *gen.Node, juxta []int, gaps []gapInfo) (bool, string) {
	if len(juxta) >= 2 {
		return true, "multi-gap"
	}
	byID := map[int]gapInfo{}
	for _, g := range gaps {
		byID[g.id] = g
	}
	nextToOr := false
	var rec func(n, parent *gen.Node, id *int)
	idc := 0
	rec = func(n, parent *gen.Node, id *int) {
		if n == nil {
			return
		}
		my := *id
		*id++
		for _, j := range juxta {
			if j == my && (parent != nil && parent.K == gen.NOr || n.L.K == gen.NOr || n.R.K == gen.NOr) {
				nextToOr = true
			}
		}
		rec(n.L, n, id)
		rec(n.R, n, id)
	}
	rec(tree, nil, &idc)
	if nextToOr {
		return true, "next-to-OR"
	}
	for _, j := range juxta {
		if g := byID[j]; g.leftKind != gen.NTerm {
			return true, "left-needs-reduction:" + g.leftKind.String()
		}
	}
	return false, "two-bare-words"
}

func TestC07(t *testing.T) {
	cfg := report.Load()
	st := report.New("C07", cfg)
	defer st.Finish(t)
	st.Rule("query trees as in C05; for each tree every non-empty subset (<= 6 AND nodes) or random subsets of the AND nodes is written as whitespace instead of AND. Oracle: metamorphic pair Parse(explicit text) vs Parse(juxtaposed text): whenever the juxtaposed text is accepted the explicit one is accepted with the identical tree; the juxtaposed text must be accepted whenever the explicit one is (gaps between two term tokens, the form the README and tests use, are counted separately from gaps next to brackets and prefix operators). Gaps after a bare ~ or ^ are not generated unless NOT follows. Non-trivial = a juxtaposed gap whose left operand is not a bare word, or >= 2 juxtaposed gaps, or a juxtaposed gap adjacent to OR; distinct by juxtaposed text.")
	st.Assume("C05 vouches for the explicit text", "rejection of juxtaposition next to brackets or before ( + - NOT is not a C07 violation")
	regress(t, st, "C07")
	_ = activeFindings(st, "C07")

	run := func(stream string, c JuxtaCase, gaps []gapInfo) bool {
		st.Eval()
		f, accepted := checkC07(c)
		if f != nil {
			c.Expl, c.Jux = c.texts()
			st.Violate(stream, c, f)
			return false
		}
		if accepted {
			st.Class("juxtaposed-accepted")
			if nt, why := c07NonTrivial(c.Tree, c.Juxta, gaps); nt {
				_, jux := c.texts()
				st.NonTrivial(jux)
				st.Class(why)
				st.Sample(why, jux)
			} else {
				st.Class(why)
			}
		} else {
			st.Class("juxtaposed-rejected-or-ineligible")
		}
		return true
	}
	perTree := func(stream string, tree *gen.Node, o gen.Opts) bool {
		gaps := andGaps(tree, o)
		var ids []int
		for _, g := range gaps {
			if g.eligible {
				ids = append(ids, g.id)
			}
		}
		if len(ids) == 0 || len(ids) > 6 {
			return true
		}
		ok := true
		subsets(ids, func(s []int) {
			if !run(stream, JuxtaCase{Tree: tree, Opts: o, Juxta: s}, gaps) {
				ok = false
			}
		})
		return ok
	}

	leaves := gen.LeafAlphabet(cfg.Thorough())
	st.Stream("enum-depth2", true, fmt.Sprintf("all trees of operator depth <= 2 over %d leaves x every non-empty subset of eligible AND nodes", len(leaves)))
	gen.EnumTrees(leaves, 2, gen.EnumOps{Suffix: true, Group: true}, cfg.Shard, cfg.NShards, func(n *gen.Node) {
		perTree("enum-depth2", n, gen.Opts{})
	})
	if cfg.Thorough() {
		small := gen.LeafAlphabet(false)
		sel := []*gen.Node{small[0], small[4]}
		st.Stream("enum-depth3", true, "all trees of operator depth <= 3 over 2 leaves {a, f:b}, operators AND OR NOT + - ^ ^2 ~ ~3, x every non-empty subset of eligible AND nodes (<= 6)")
		gen.EnumTrees(sel, 3, gen.EnumOps{Suffix: true}, cfg.Shard, cfg.NShards, func(n *gen.Node) {
			perTree("enum-depth3", n, gen.Opts{})
		})
	}
	st.Rapid(t, "random-trees", cfg.N(30000, 1500000), func(rt *rapid.T) {
		tree := gen.GenTree(gen.ParseCfg).Draw(rt, "tree")
		o := genOpts(rt, tree, false)
		gaps := andGaps(tree, o)
		var ids []int
		for _, g := range gaps {
			if g.eligible {
				ids = append(ids, g.id)
			}
		}
		if len(ids) == 0 {
			tree = &gen.Node{K: gen.NAnd, L: tree, R: &gen.Node{K: gen.NField, Field: gen.Word("z"), V: gen.Word("y")}}
			gaps = andGaps(tree, o)
			ids = nil
			for _, g := range gaps {
				if g.eligible {
					ids = append(ids, g.id)
				}
			}
		}
		if len(ids) == 0 {
			st.Eval()
			st.Class("no-eligible-gap")
			return
		}
		var pick []int
		for _, id := range ids {
			if rapid.Bool().Draw(rt, "jux") {
				pick = append(pick, id)
			}
		}
		if len(pick) == 0 {
			pick = ids[:1]
		}
		sort.Ints(pick)
		if !run("random-trees", JuxtaCase{Tree: tree, Opts: o, Juxta: pick}, gaps) {
			rt.Fatalf("violation")
		}
	})
}
