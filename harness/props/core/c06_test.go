package core

import (
	"encoding/json"
	"fmt"
	"strings"
	"testing"

	"github.com/grindlemire/go-lucene/verif/gen"
	"github.com/grindlemire/go-lucene/verif/model"
	"github.com/grindlemire/go-lucene/verif/report"
	"pgregory.net/rapid"
)

// TokCase is a token sequence (meaning known to the harness) and a default field.
type TokCase struct {
	Toks []gen.Tok `json:"toks"`
	DF   string    `json:"df"`
	Text string    `json:"text,omitempty"`
	Fill []string  `json:"fill,omitempty"`
	Raw  []byte    `json:"raw,omitempty"` // the original input when the tokens were cut from it
}

func (c TokCase) text() string {
	if c.Raw != nil {
		return string(c.Raw)
	}
	if len(c.Fill) > 0 {
		return gen.Join(c.Toks, gen.Opts{Fill: c.Fill})
	}
	return gen.JoinSpace(c.Toks)
}

func checkC06(c TokCase) (f *report.Failure, accepted bool) {
	text := c.text()
	defer func() {
		if r := recover(); r != nil {
			f, accepted = nil, false // panics are C01's
		}
	}()
	e, err := parseWith(text, c.DF)
	if err != nil {
		return nil, false
	}
	m := model.NewMatcher(model.FromToks(c.Toks), c.DF)
	if !m.Match(e) {
		return report.Failf("no-derivation", "Parse(%q, df=%q) accepted the text as %#v, which is not a derivation of its %d tokens in the documented grammar (something was dropped, invented, reordered, mistyped or mispaired)", text, c.DF, e, len(c.Toks)), true
	}
	return nil, true
}

func init() {
	replayers["C06"] = func(raw json.RawMessage) *report.Failure {
		var c TokCase
		if err := json.Unmarshal(raw, &c); err != nil {
			return report.Failf("replay", "bad case: %v", err)
		}
		f, _ := checkC06(c)
		return f
	}
}

func classSeq(toks []gen.Tok) string {
	var b strings.Builder
	for _, t := range toks {
		switch t.Class {
		case gen.TTerm:
			if t.Val != nil {
				b.WriteString(t.Val.K.String()[:1])
			} else {
				b.WriteString("?")
			}
		default:
			b.WriteString(t.Sym)
		}
		b.WriteByte(' ')
	}
	return b.String()
}

// mutateToks applies 1-3 token insertions, deletions, replacements or swaps.
func mutateToks(rt *rapid.T, toks []gen.Tok, pool []gen.Tok) []gen.Tok {
	toks = append([]gen.Tok(nil), toks...)
	for k := rapid.IntRange(1, 3).Draw(rt, "nmut"); k > 0 && len(toks) > 0; k-- {
		at := rapid.IntRange(0, len(toks)-1).Draw(rt, "at")
		switch rapid.IntRange(0, 4).Draw(rt, "mut") {
		case 0:
			toks = append(toks[:at:at], toks[at+1:]...)
		case 1, 2:
			toks = append(toks[:at:at], append([]gen.Tok{rapid.SampledFrom(pool).Draw(rt, "ins")}, toks[at:]...)...)
		case 3:
			toks[at] = rapid.SampledFrom(pool).Draw(rt, "rep")
		default:
			o := rapid.IntRange(0, len(toks)-1).Draw(rt, "other")
			toks[at], toks[o] = toks[o], toks[at]
		}
	}
	if len(toks) == 0 {
		toks = []gen.Tok{gen.Term(gen.Word("a"))}
	}
	return toks
}

func TestC06(t *testing.T) {
	cfg := report.Load()
	st := report.New("C06", cfg)
	defer st.Finish(t)
	st.Rule("token sequences whose token meanings the harness knows by construction: exhaustive over the full 31-token alphabet and over class-reduced / focus alphabets up to stated lengths, printed random trees, and mutated prints (1-3 token insertions, deletions, replacements, swaps) biased towards almost-valid input; each with and without a default field. Every ACCEPTED input is audited by the derivation matcher (memoised search over all splits for a derivation of the token sequence from the returned tree in the documented grammar; precedence is ignored, any derivation counts). Non-trivial = accepted input with >= 3 tokens; distinct by (token-class sequence, default field).")
	st.Assume("the matcher is the harness's executable form of the documented grammar", "mixed brackets {1 TO 5] are a range with Inclusive=false", "single-quoted phrases and escapes inside patterns are checked for position only (M1 says 'unknown')", "the number after ~ / ^ may be any single term token whose text is that number, optionally parenthesised")
	regress(t, st, "C06")
	_ = activeFindings(st, "C06")

	run := func(stream string, c TokCase) bool {
		st.Eval()
		f, accepted := checkC06(c)
		if f != nil {
			if c.Raw == nil {
				c.Toks = gen.MinimizeToks(c.Toks, func(t []gen.Tok) bool {
					ff, _ := checkC06(TokCase{Toks: t, DF: c.DF, Fill: c.Fill})
					return ff != nil && ff.Sub == f.Sub
				})
				f, _ = checkC06(c)
			}
			c.Text = c.text()
			st.Violate(stream, c, f)
			return false
		}
		if accepted {
			st.Class(fmt.Sprintf("accepted-len%02d", min(len(c.Toks), 12)))
			if len(c.Toks) >= 3 {
				st.NonTrivial(c.DF + "\x00" + classSeq(c.Toks))
				st.Sample(stream, c.text()+"  df="+c.DF)
			}
		} else {
			st.Class("rejected")
		}
		return true
	}

	fullLen, redLen, focusLen := 3, 4, 5
	if cfg.Thorough() {
		fullLen, redLen, focusLen = 5, 6, 8
	}
	enum := func(name string, alpha []gen.Tok, maxLen int) {
		st.Stream(name, true, fmt.Sprintf("every token sequence of length 1..%d over %d tokens x df in {none, dflt}", maxLen, len(alpha)))
		gen.EnumSeqs(alpha, maxLen, cfg.Shard, cfg.NShards, func(seq []gen.Tok) {
			cp := append([]gen.Tok(nil), seq...)
			run(name, TokCase{Toks: cp})
			run(name, TokCase{Toks: cp, DF: "dflt"})
		})
	}
	enum("enum-full", gen.FullAlphabet(), fullLen)
	enum("enum-reduced", gen.ReducedAlphabet(), redLen)
	// thorough: length 8 over the 10-token focus alphabets (2 x 10^8 cases each); length 9
	// took the 16 shards close to the one-hour test timeout
	enum("enum-bool", gen.BoolAlphabet(), focusLen+map[bool]int{false: 1, true: 0}[cfg.Thorough()])
	enum("enum-range", gen.RangeAlphabet(), focusLen)
	enum("enum-unary", gen.UnaryAlphabet(), focusLen)
	// a complete range takes seven tokens, more than the enumerations above reach in the
	// quick tier
	st.Stream("enum-range-frame", true, "token sequences around one range (gen.RangeFrames): a : + 5 tokens over the range alphabet; a : [ b TO + 1..4 tokens; a : [ + 1..3 tokens + TO c ]; x df in {none, dflt}")
	gen.RangeFrames(cfg.Shard, cfg.NShards, func(seq []gen.Tok) {
		cp := append([]gen.Tok(nil), seq...)
		run("enum-range-frame", TokCase{Toks: cp})
		run("enum-range-frame", TokCase{Toks: cp, DF: "dflt"})
	})

	dfGen := rapid.SampledFrom([]string{"", "", "dflt", "my field"})
	pool := append(gen.FullAlphabet(), gen.RawTerm(`x\\*`), gen.RawTerm(`a\\\\b`), gen.RawTerm(`b\*`), gen.RawTerm(`c\\?d`), gen.RawTerm(`\\`), gen.RawTerm(`a\*b*`), gen.RawTerm("NaN"), gen.RawTerm("0x1F"), gen.RawTerm("$"), gen.RawTerm(","), gen.RawTerm("!"), gen.RawTerm("#"), gen.RawTerm("&&"), gen.RawTerm("\x00"), gen.RawTerm("\u00a0"))
	rawTerms := pool[len(gen.FullAlphabet()):]
	st.Rapid(t, "printed-and-mutated", cfg.N(40000, 3000000), func(rt *rapid.T) {
		tree := gen.GenTree(gen.ParseCfg).Draw(rt, "tree")
		o := gen.Opts{Full: rapid.IntRange(0, 5).Draw(rt, "full") == 0}
		if rapid.Bool().Draw(rt, "juxta") {
			o.Juxta = map[int]bool{}
			for _, g := range andGaps(tree, o) {
				if g.eligible && rapid.Bool().Draw(rt, "j") {
					o.Juxta[g.id] = true
				}
			}
		}
		toks := gen.Print(tree, o).Toks
		switch rapid.IntRange(0, 4).Draw(rt, "mutate") {
		case 0:
		case 4: // replace value terms by raw words whose meaning M1 decides (escapes + wildcards)
			toks = append([]gen.Tok(nil), toks...)
			for i := range toks {
				if toks[i].Class == gen.TTerm && toks[i].Val != nil && toks[i].Val.K == gen.VWord && rapid.IntRange(0, 2).Draw(rt, "raw") == 0 {
					toks[i] = rapid.SampledFrom(rawTerms).Draw(rt, "rawterm")
				}
			}
		case 1:
			toks = gen.NestInTermPosition(rt, toks)
		default:
			toks = mutateToks(rt, toks, pool)
		}
		c := TokCase{Toks: toks, DF: dfGen.Draw(rt, "df")}
		if rapid.Bool().Draw(rt, "ws") {
			c.Fill = gen.GenFill().Draw(rt, "fill")
		}
		if !run("printed-and-mutated", c) {
			rt.Fatalf("violation")
		}
	})
}
