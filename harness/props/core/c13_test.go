package core

import (
	"encoding/json"
	"fmt"
	"strings"
	"testing"

	"github.com/grindlemire/go-lucene/pkg/driver"
	"github.com/grindlemire/go-lucene/pkg/lucene/expr"
	"github.com/grindlemire/go-lucene/verif/gen"
	"github.com/grindlemire/go-lucene/verif/report"
	"pgregory.net/rapid"
)

// DocCase is a byte sequence handed to the JSON decoder.
type DocCase struct {
	Doc    []byte `json:"doc"`
	Quoted string `json:"quoted"`
}

func mkDoc(b []byte) DocCase {
	q := string(b)
	if len(q) > 300 {
		q = q[:300] + "..."
	}
	return DocCase{Doc: b, Quoted: fmt.Sprintf("%q", q)}
}

// checkC13 returns the failure (if any) and how far the document got:
// 0 rejected by the decoder, 1 decoded, 2 decoded and validated.
func checkC13(c DocCase) (f *report.Failure, stage int, ops int) {
	var e expr.Expression
	var uerr error
	if f = report.Guard("panic:Unmarshal", func() { uerr = json.Unmarshal(c.Doc, &e) }); f != nil {
		f.Msg = fmt.Sprintf("json.Unmarshal(%s) into Expression: %s", c.Quoted, f.Msg)
		return f, 0, 0
	}
	if uerr != nil {
		return nil, 0, 0
	}
	stage = 1
	var verr error
	if f = report.Guard("panic:Validate", func() { verr = expr.Validate(&e) }); f != nil {
		f.Msg = fmt.Sprintf("Validate after decoding %s: %s", c.Quoted, f.Msg)
		return f, stage, 0
	}
	var cnt func(x any)
	cnt = func(x any) {
		switch v := x.(type) {
		case *expr.Expression:
			if v != nil && !isLeafExpr(v) {
				ops++
				cnt(v.Left)
				cnt(v.Right)
			}
		case []*expr.Expression:
			for _, it := range v {
				cnt(it)
			}
		}
	}
	cnt(&e)
	if verr != nil {
		return nil, stage, ops
	}
	stage = 2
	d := driver.NewPostgresDriver()
	for _, op := range []struct {
		name string
		fn   func()
	}{
		{"String", func() { _ = e.String() }},
		{"GoString", func() { _ = fmt.Sprintf("%#v", e) }},
		{"Marshal", func() { _, _ = json.Marshal(&e) }},
		{"Render", func() { _, _ = d.Render(&e) }},
		{"RenderParam", func() { _, _, _ = d.RenderParam(&e) }},
	} {
		if f = report.Guard("panic:"+op.name, op.fn); f != nil {
			f.Msg = fmt.Sprintf("%s on the validated tree decoded from %s: %s", op.name, c.Quoted, f.Msg)
			return f, stage, ops
		}
	}
	return nil, stage, ops
}

func init() {
	replayers["C13"] = func(raw json.RawMessage) *report.Failure {
		var c DocCase
		if err := json.Unmarshal(raw, &c); err != nil {
			return report.Failf("replay", "bad case: %v", err)
		}
		f, _, _ := checkC13(c)
		return f
	}
}

// operator templates for the exhaustive small-document stream; %s slots are
// filled with every scalar of the pool.
var docTemplates = []string{
	`%s`,
	`{"left":%s,"operator":"EQUALS","right":%s}`,
	`{"left":%s,"operator":"LIKE","right":%s}`,
	`{"left":%s,"operator":"GREATER","right":%s}`,
	`{"left":%s,"operator":"AND","right":%s}`,
	`{"left":%s,"operator":"OR","right":%s}`,
	`{"left":%s,"operator":"NOT"}`,
	`{"left":%s,"operator":"MUST"}`,
	`{"left":%s,"operator":"MUST_NOT"}`,
	`{"left":%s,"operator":"BOOST","power":%s}`,
	`{"left":%s,"operator":"FUZZY","distance":%s}`,
	`{"left":%s,"operator":"LITERAL"}`,
	`{"left":%s,"operator":"WILD"}`,
	`{"left":%s,"operator":"REGEXP"}`,
	`{"left":%s,"operator":"LIST"}`,
	`{"left":%s,"operator":"NOT","right":%s}`,
	`{"left":"a","operator":"RANGE","right":{"min":%s,"max":%s,"inclusive":true}}`,
	`{"left":%s,"operator":"RANGE","right":{"min":1,"max":%s,"inclusive":false}}`,
	`{"left":"a","operator":"RANGE","right":{"min":1,"max":2,"inclusive":%s}}`,
	`{"left":"a","operator":"RANGE","right":%s}`,
	`{"left":"a","operator":"IN","right":{"left":%s,"operator":"LIST"}}`,
	`{"left":"a","operator":"IN","right":{"left":[%s,%s],"operator":"LIST"}}`,
	`{"left":%s,"operator":"IN","right":%s}`,
	`{"left":"a","operator":%s,"right":"b"}`,
	`{"left":"a","operator":"EQUALS","right":"b","boundaries":%s}`,
	`{"left":{"left":%s,"operator":"NOT"},"operator":"AND","right":{"left":"a","operator":"LIKE","right":%s}}`,
}

func TestC13(t *testing.T) {
	cfg := report.Load()
	st := report.New("C13", cfg)
	defer st.Finish(t)
	st.Rule("byte sequences handed to json.Unmarshal into an Expression: (a) exhaustive small documents - every scalar of a 41-entry pool in every slot of 26 operator templates; (b) rapid schema-aware documents, well-formed and with member-level corruption (missing / null / wrong-type / extra / duplicate members, unknown and lower-case operators, arrays in scalar positions, objects in array positions, huge and non-finite-looking numbers); (c) byte mutations of encodings of parsed queries; (d) deep nesting to 2000 levels. Oracle: Unmarshal returns (a panic is a violation, an error is fine); if it returned nil and Validate passes, String, %#v, json.Marshal, Render and RenderParam each return normally. Non-trivial = the document decoded and the tree has >= 1 operator node; distinct by document bytes. The decoded+validated rate is reported separately.")
	st.Assume("nothing is asserted about what the operations return, only that they return", "documents nested deeper than 2000 levels are not generated (encoding/json itself refuses > 10000)")
	regress(t, st, "C13")
	_ = activeFindings(st, "C13")
	w := startWatch(st)
	defer w.close()

	run := func(stream string, c DocCase) bool {
		st.Eval()
		ic := InCase{Input: c.Doc, Quoted: c.Quoted}
		w.begin(&ic)
		f, stage, ops := checkC13(c)
		w.end()
		if f != nil {
			st.Violate(stream, c, f)
			return false
		}
		st.Class([]string{"rejected-by-decoder", "decoded-not-validated", "decoded-and-validated"}[stage])
		if stage >= 1 && ops >= 1 {
			st.NonTrivial(string(c.Doc))
			st.Sample(fmt.Sprintf("%s:stage%d", stream, stage), c.Quoted)
		}
		return true
	}

	// (a) exhaustive small documents
	st.Stream("small-docs", true, fmt.Sprintf("every scalar of a %d-entry pool in every slot of %d operator templates", len(gen.JSONScalars), len(docTemplates)))
	var total int64
	for _, tpl := range docTemplates {
		slots := strings.Count(tpl, "%s")
		idx := make([]int, slots)
		for {
			if int(total%int64(cfg.NShards)) == cfg.Shard {
				args := make([]any, slots)
				for i := range idx {
					args[i] = gen.JSONScalars[idx[i]]
				}
				run("small-docs", mkDoc([]byte(fmt.Sprintf(tpl, args...))))
			}
			total++
			p := slots - 1
			for p >= 0 {
				idx[p]++
				if idx[p] < len(gen.JSONScalars) {
					break
				}
				idx[p] = 0
				p--
			}
			if p < 0 {
				break
			}
		}
	}

	// (b) schema-aware documents
	st.Rapid(t, "schema-docs", cfg.N(40000, 2500000), func(rt *rapid.T) {
		doc := gen.GenJSONDoc(false).Draw(rt, "doc")
		if !run("schema-docs", mkDoc([]byte(doc))) {
			rt.Fatalf("violation")
		}
	})
	st.Rapid(t, "corrupted-docs", cfg.N(40000, 2500000), func(rt *rapid.T) {
		doc := gen.GenJSONDoc(true).Draw(rt, "doc")
		if !run("corrupted-docs", mkDoc([]byte(doc))) {
			rt.Fatalf("violation")
		}
	})

	// (c) byte mutations of valid encodings
	tcfg := gen.ParseCfg
	tcfg.Vals.Hostile = true
	st.Rapid(t, "mutated-encodings", cfg.N(30000, 2000000), func(rt *rapid.T) {
		tree := gen.GenTree(tcfg).Draw(rt, "tree")
		e, err := parseWith(gen.Text(tree, gen.Opts{}), "")
		if err != nil {
			st.Eval()
			st.Class("seed-query-rejected")
			return
		}
		b, err := json.Marshal(e)
		if err != nil {
			st.Eval()
			st.Class("seed-encode-failed")
			return
		}
		b = append([]byte(nil), b...)
		for k := rapid.IntRange(0, 3).Draw(rt, "nmut"); k > 0 && len(b) > 0; k-- {
			at := rapid.IntRange(0, len(b)-1).Draw(rt, "at")
			switch rapid.IntRange(0, 4).Draw(rt, "mut") {
			case 0:
				b = append(b[:at:at], b[at+1:]...)
			case 1:
				b[at] = rapid.SampledFrom([]byte(`"{}[]:,0-9a\ntfe.*?/`)).Draw(rt, "byte")
			case 2:
				ins := rapid.SampledFrom([]string{`""`, `null`, `[]`, `{}`, `"*"`, `,`, `"min":1,"max":2`, `1e999`, `"left":`}).Draw(rt, "ins")
				b = append(b[:at:at], append([]byte(ins), b[at:]...)...)
			case 3: // replace a string literal's content with an empty string
				if i := strings.Index(string(b[at:]), `"`); i >= 0 {
					j := strings.Index(string(b[at+i+1:]), `"`)
					if j >= 0 {
						b = append(b[:at+i+1:at+i+1], b[at+i+1+j:]...)
					}
				}
			default: // swap two members' values crudely: duplicate a chunk
				end := rapid.IntRange(at, len(b)).Draw(rt, "end")
				b = append(b[:end:end], append(append([]byte(nil), b[at:end]...), b[end:]...)...)
			}
		}
		if !run("mutated-encodings", mkDoc(b)) {
			rt.Fatalf("violation")
		}
	})

	// (d) deep nesting
	if cfg.Shard == 0 {
		st.Stream("deep-nesting", false, "unary / binary / array / range nesting to 2000 levels")
		for _, depth := range []int{50, 500, 2000} {
			for _, sh := range []struct{ open, mid, close string }{
				{`{"left":`, `"a"`, `,"operator":"NOT"}`},
				{`{"left":"a","operator":"AND","right":`, `"b"`, `}`},
				{`{"left":`, `"a"`, `,"operator":"AND","right":"b"}`},
				{`[`, `1`, `]`},
				{`{"left":"a","operator":"RANGE","right":{"min":`, `1`, `,"max":2}}`},
				{`{"left":[`, `"a"`, `],"operator":"LIST"}`},
			} {
				doc := strings.Repeat(sh.open, depth) + sh.mid + strings.Repeat(sh.close, depth)
				run("deep-nesting", mkDoc([]byte(doc)))
			}
		}
	}
}
