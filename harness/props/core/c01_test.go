package core

import (
	"bytes"
	"encoding/json"
	"fmt"
	"strings"
	"testing"
	"time"

	"github.com/grindlemire/go-lucene/verif/report"
)

// checkC01: every operation returns normally and the printed forms carry no
// fmt error marker.
func checkC01(c InCase, w *watch) (f *report.Failure, accepted bool) {
	s := string(c.Input)
	if w != nil {
		w.begin(&c)
		defer w.end()
	}
	var opName string
	defer func() {
		if r := recover(); r != nil {
			f = report.Failf("panic:"+opName, "%s panicked on %s df=%q: %v", opName, c.Quoted, c.DF, r)
		}
	}()
	opName = "Parse"
	e, err := parseWith(s, c.DF)
	opName = "ToPostgres"
	_, _ = toPG(s, c.DF)
	opName = "ToParameterizedPostgres"
	_, _, _ = toPGParam(s, c.DF)
	if err != nil || e == nil {
		return nil, false
	}
	// a %! in the output can only be legitimate if the input itself - the query or the
	// default field, which is printed as a field name - contains %!
	checkMarker := !bytes.Contains(bytes.ReplaceAll(c.Input, []byte(`\`), nil), []byte("%!")) && !strings.Contains(c.DF, "%!")
	opName = "String"
	str := e.String()
	if checkMarker && strings.Contains(str, "%!") {
		return report.Failf("marker:String", "String() of %s contains a fmt error marker: %q", c.Quoted, str), true
	}
	opName = "GoString"
	gs := fmt.Sprintf("%#v", e)
	if checkMarker && strings.Contains(gs, "%!") {
		return report.Failf("marker:GoString", "%%#v of %s contains a fmt error marker: %q", c.Quoted, gs), true
	}
	opName = "MarshalJSON"
	js, jerr := json.Marshal(e)
	if jerr == nil && checkMarker && bytes.Contains(js, []byte("%!")) {
		return report.Failf("marker:JSON", "JSON of %s contains a fmt error marker: %q", c.Quoted, js), true
	}
	return nil, true
}

func init() {
	replayers["C01"] = func(raw json.RawMessage) *report.Failure {
		c, f := decodeIn(raw)
		if f != nil {
			return f
		}
		f, _ = checkC01(c, nil)
		return f
	}
}

// bigShapes are the adversarial shapes whose growth is measured; n is the number
// of repeated units.
var bigShapes = []struct {
	name string
	mk   func(n int) string
}{
	{"and-chain", func(n int) string { return strings.TrimSuffix(strings.Repeat("a:b AND ", n), " AND ") }},
	{"or-chain", func(n int) string { return strings.TrimSuffix(strings.Repeat("a:b OR ", n), " OR ") }},
	{"juxtaposed", func(n int) string { return strings.Repeat("a:b ", n) }},
	{"bare-words", func(n int) string { return strings.Repeat("w ", n) }},
	{"nested-parens", func(n int) string { return strings.Repeat("(", n) + "a" + strings.Repeat(")", n) }},
	{"open-parens", func(n int) string { return strings.Repeat("(", n) }},
	{"close-parens", func(n int) string { return strings.Repeat(")", n) }},
	{"open-brackets", func(n int) string { return strings.Repeat("a:[", n) }},
	{"not-chain", func(n int) string { return strings.Repeat("NOT (", n) + "a" + strings.Repeat(")", n) }},
	{"plus-run", func(n int) string { return strings.Repeat("+", n) + "a" }},
	{"minus-plus-run", func(n int) string { return strings.Repeat("-+", n/2) + "a" }},
	{"tilde-run", func(n int) string { return "a" + strings.Repeat("~", n) }},
	{"boost-run", func(n int) string { return "a" + strings.Repeat("^2", n) }},
	{"operators-only", func(n int) string { return strings.Repeat("AND OR NOT ", n/3) }},
	{"colon-run", func(n int) string { return strings.Repeat("a:", n) + "b" }},
	{"long-word", func(n int) string { return strings.Repeat("x", n*20) }},
	{"long-quoted", func(n int) string { return `a:"` + strings.Repeat("x y ", n*5) + `"` }},
	{"or-list", func(n int) string { return "a:(" + strings.TrimSuffix(strings.Repeat("v OR ", n), " OR ") + ")" }},
	{"ranges", func(n int) string { return strings.TrimSuffix(strings.Repeat("a:[1 TO 5] OR ", n), " OR ") }},
	{"right-nested", func(n int) string { return strings.Repeat("a AND (", n) + "b" + strings.Repeat(")", n) }},
	{"right-nested-list", func(n int) string { return "f:(" + strings.Repeat("v OR (", n) + "v" + strings.Repeat(")", n) + ")" }},
	{"left-nested-list", func(n int) string { return "f:(" + strings.Repeat("(", n) + "v" + strings.Repeat(" OR v)", n) + ")" }},
	{"nested-field-groups", func(n int) string { return strings.Repeat("f:(", n) + "v" + strings.Repeat(")", n) }},
	{"nested-not-list", func(n int) string { return "f:(" + strings.Repeat("NOT (", n) + "v" + strings.Repeat(")", n) + ")" }},
	{"must-chain", func(n int) string { return strings.Repeat("+(", n) + "a:b" + strings.Repeat(")", n) }},
	{"long-word-escaped-invalid", func(n int) string { return strings.Repeat("x", n*3) + "\\\xff" }},
	{"escaped-invalid-run", func(n int) string { return "w" + strings.Repeat("\\\xff", n) }},
	{"all-escaped-word", func(n int) string { return strings.Repeat(`\:`, n) }},
	{"long-wildcard", func(n int) string { return "a:" + strings.Repeat("x*?", n) }},
	{"long-regexp", func(n int) string { return "a:/" + strings.Repeat(`x\/`, n) + "/" }},
	{"long-field-name", func(n int) string { return strings.Repeat("f", n*5) + ":v" }},
	{"long-quoted-invalid", func(n int) string { return `a:"` + strings.Repeat("\xff\x00 ", n) + `"` }},
	{"suffix-on-groups", func(n int) string { return strings.Repeat("(", n) + "a" + strings.Repeat(")^2", n) }},
	{"range-chain-juxtaposed", func(n int) string { return strings.Repeat("a:[1 TO 5] ", n) }},
	{"mixed-prefix-chain", func(n int) string { return strings.Repeat("NOT -+", n/3+1) + "a" }},
	{"unterminated-quote", func(n int) string { return strings.Repeat("a ", n) + `"` }},
	{"escapes", func(n int) string { return strings.Repeat(`\`, n*2+1) }},
}

func TestC01(t *testing.T) {
	cfg := report.Load()
	st := report.New("C01", cfg)
	defer st.Finish(t)
	st.Rule("inputs: exhaustive token sequences over several alphabets (joined by spaces), rapid-generated printed query trees (all styles), random byte strings / hostile fragments / token soups, and large adversarial shapes; each x default-field option. Every case runs Parse, ToPostgres, ToParameterizedPostgres and, if accepted, String, %#v, json.Marshal under recover and a watchdog. Non-trivial = Parse accepted the input, or rejected it after at least one token (non-blank input); distinct by (input, default field).")
	st.Assume("Go runtime asynchronous pre-emption lets the watchdog run while the code under test spins", "polynomial time is evidenced by the growth table, only hangs are decided", "the %! marker is only checked when neither the query (backslashes ignored) nor the default field contains the two bytes %!")
	regress(t, st, "C01")
	active := activeFindings(st, "C01")
	_ = active
	w := startWatch(st)
	defer w.close()

	// (0) the adversarial shapes at 24 and 48 repeated units, before anything else and in
	// every process: most of them are below 512 bytes, where the 20 s hang rule decides,
	// so an exponential blow-up ends here as a violation instead of ending a later
	// stream as "inconclusive" on the first generated input that happens to be larger
	st.Stream("small-rungs", false, fmt.Sprintf("%d adversarial shapes at 24 and 48 repeated units, both default-field options, run first", len(bigShapes)))
	for _, sh := range bigShapes {
		for _, n := range []int{24, 48} {
			for _, df := range []string{"", "dflt"} {
				st.Eval()
				c := mkIn(sh.mk(n), df, 0)
				if f, _ := checkC01(c, w); f != nil {
					st.Violate("small-rungs", c, f)
				}
			}
		}
	}

	sc := streamCfg{fullLen: 3, reducedLen: 4, focusLen: 5, trees: cfg.N(12000, 1000000), strings: cfg.N(20000, 2000000), dfs: []string{"", "dflt"}}
	if cfg.Thorough() {
		sc.fullLen, sc.reducedLen, sc.focusLen = 4, 5, 7
	}
	inputStreams(t, st, sc, func(stream string, c InCase) bool {
		st.Eval()
		f, accepted := checkC01(c, w)
		if f != nil {
			st.Violate(stream, c, f)
			return false
		}
		if accepted {
			st.Class("accepted")
			st.NonTrivial(c.DF + "\x00" + string(c.Input))
			st.Sample("accepted:"+stream, c.Quoted+" df="+c.DF)
		} else if len(bytes.TrimSpace(c.Input)) > 0 {
			st.Class("rejected")
			st.NonTrivial(c.DF + "\x00" + string(c.Input))
			st.Sample("rejected:"+stream, c.Quoted+" df="+c.DF)
		} else {
			st.Class("blank")
		}
		return true
	})

	// (d) large adversarial shapes, with measured growth
	units := 500
	if cfg.Thorough() {
		units = 4000
	}
	if cfg.Shard == 0 {
		st.Stream("big-shapes", false, fmt.Sprintf("%d adversarial shapes at 24, 48, %d and %d repeated units (the two small rungs keep exponential blow-ups inside the 512-byte / 20 s hang rule), both default-field options", len(bigShapes), units/2, units))
		growth := map[string]any{}
		sizes := []int{24, 48, units / 2, units}
		for _, sh := range bigShapes {
			times := make([]float64, len(sizes))
			for i, n := range sizes {
				in := sh.mk(n)
				t0 := time.Now()
				for _, df := range []string{"", "dflt"} {
					st.Eval()
					c := mkIn(in, df, 0)
					f, accepted := checkC01(c, w)
					if f != nil {
						st.Violate("big-shapes", c, f)
					}
					if accepted {
						st.Class("big-accepted")
					}
					st.NonTrivial(fmt.Sprintf("big/%s/%d/%s", sh.name, n, df))
				}
				times[i] = time.Since(t0).Seconds()
			}
			ratio := 0.0
			if times[2] > 0 {
				ratio = times[3] / times[2]
			}
			growth[sh.name] = map[string]any{"units": units, "t_24_s": times[0], "t_48_s": times[1], "t_half_s": times[2], "t_full_s": times[3], "ratio_on_doubling": ratio}
		}
		st.Extra("growth_all_six_operations", growth)
		st.Sample("big-shape", fmt.Sprintf("%.60q...", bigShapes[0].mk(units)))
	}
}
