package core

import (
	"encoding/json"
	"fmt"
	"strings"
	"testing"
	"unicode"
	"unicode/utf8"

	lucene "github.com/grindlemire/go-lucene"
	"github.com/grindlemire/go-lucene/internal/lex"
	"github.com/grindlemire/go-lucene/verif/gen"
	"github.com/grindlemire/go-lucene/verif/report"
	"pgregory.net/rapid"
)

// C16Case: the input bytes (base64 in JSON) with a readable copy.
type C16Case struct {
	Input  []byte `json:"input"`
	Quoted string `json:"quoted"`
	// MustFail: the harness built the input so that it contains a lexical error.
	MustFail string `json:"must_fail,omitempty"`
}

func isWS(b byte) bool { return b == ' ' || b == '\t' || b == '\r' || b == '\n' }

// canStartToken is the harness's own reading of the documented syntax.
func canStartToken(r rune) bool {
	if r == '_' || unicode.IsLetter(r) || unicode.IsDigit(r) {
		return true
	}
	return strings.ContainsRune(`*?\()[]{}:+=><~^-"'/`, r)
}

// lexicalErrorAt decides whether rest (whitespace already skipped) begins with
// something the property names as a lexical error.
func lexicalErrorAt(rest string) bool {
	if rest == "" {
		return false
	}
	r, w := utf8.DecodeRuneInString(rest)
	switch {
	case r == '"' || r == '\'':
		return !strings.ContainsRune(rest[w:], r)
	case r == '/':
		rs := rest[w:]
		for len(rs) > 0 {
			c, cw := utf8.DecodeRuneInString(rs)
			rs = rs[cw:]
			if c == '\\' {
				if len(rs) > 0 {
					_, sw := utf8.DecodeRuneInString(rs)
					rs = rs[sw:]
				}
				continue
			}
			if c == '/' {
				return false
			}
		}
		return true
	}
	return !canStartToken(r)
}

func checkC16(c C16Case) (f *report.Failure, ntok int, sawErr bool) {
	s := string(c.Input)
	defer func() {
		if r := recover(); r != nil {
			f = report.Failf("panic", "lexer panicked on %q: %v", s, r)
		}
	}()
	bound := map[int]bool{0: true}
	for p := 0; p < len(s); {
		_, w := utf8.DecodeRuneInString(s[p:])
		p += w
		bound[p] = true
	}
	l, plain := lex.Lex(s), lex.Lex(s)
	cur := 0
	skip := func() {
		for cur < len(s) && isWS(s[cur]) {
			cur++
		}
	}
	same := func(a, b lex.Token) bool { return a.Typ == b.Typ && a.Val == b.Val }
	for {
		p1 := l.Peek()
		p2 := l.Peek()
		n := l.Next()
		m := plain.Next()
		if !same(p1, p2) || !same(p1, n) {
			return report.Failf("peek", "on %q token %d: Peek=%v/%v Peek=%v/%v Next=%v/%v", s, ntok, p1.Typ, p1.Val, p2.Typ, p2.Val, n.Typ, n.Val), ntok, sawErr
		}
		if !same(n, m) {
			return report.Failf("peek-effect", "on %q token %d: peeked lexer gave %v/%q, unpeeked lexer %v/%q", s, ntok, n.Typ, n.Val, m.Typ, m.Val), ntok, sawErr
		}
		if n.Typ == lex.TEOF {
			skip()
			if cur != len(s) {
				return report.Failf("reconstruct", "on %q: EOF reported at byte %d of %d; %q never became a token", s, cur, len(s), s[cur:]), ntok, sawErr
			}
			break
		}
		if n.Typ == lex.TErr {
			sawErr = true
			skip()
			if !lexicalErrorAt(s[cur:]) {
				return report.Failf("spurious-error", "on %q: error token %q at byte %d but %q is not a lexical error", s, n.Val, cur, s[cur:]), ntok, sawErr
			}
			break
		}
		ntok++
		if ntok > len(s)+1 {
			return report.Failf("finite", "on %q: more than len+1 tokens", s), ntok, sawErr
		}
		skip()
		if n.Val == "" {
			return report.Failf("reconstruct", "on %q: empty token of type %v at byte %d", s, n.Typ, cur), ntok, sawErr
		}
		if r, _ := utf8.DecodeRuneInString(s[cur:]); !canStartToken(r) {
			return report.Failf("token-from-illegal-character", "on %q: token %d (%v %q) starts with %q, a character that cannot start a token (the lexer must report a lexical error there)", s, ntok, n.Typ, n.Val, r), ntok, sawErr
		}
		if !strings.HasPrefix(s[cur:], n.Val) {
			return report.Failf("reconstruct", "on %q: token %d is %q but the input continues with %q", s, ntok, n.Val, s[cur:]), ntok, sawErr
		}
		cur += len(n.Val)
		if !bound[cur] {
			return report.Failf("rune-boundary", "on %q: token %q ends inside a character (byte %d)", s, n.Val, cur), ntok, sawErr
		}
	}
	for i := 0; i < 3; i++ {
		if p := l.Peek(); p.Typ != lex.TEOF {
			return report.Failf("sticky", "on %q: Peek after the end gave %v/%q", s, p.Typ, p.Val), ntok, sawErr
		}
		if n := l.Next(); n.Typ != lex.TEOF {
			return report.Failf("sticky", "on %q: Next after the end gave %v/%q", s, n.Typ, n.Val), ntok, sawErr
		}
	}
	if sawErr || c.MustFail != "" {
		for _, df := range []string{"", "dflt"} {
			var opts []func() = nil
			_ = opts
			var e any
			var err error
			if df == "" {
				e, err = lucene.Parse(s)
			} else {
				e, err = lucene.Parse(s, lucene.WithDefaultField(df))
			}
			if err == nil {
				why := "the token stream contained an error token"
				if !sawErr {
					why = "the harness inserted " + c.MustFail
				}
				return report.Failf("parse-accepts-lexical-error", "Parse(%q, df=%q) succeeded (%v) although %s", s, df, e, why), ntok, sawErr
			}
		}
	}
	if c.MustFail != "" && !sawErr {
		return report.Failf("lexical-error-not-reported", "on %q: the harness inserted %s but the lexer reported no error token", s, c.MustFail), ntok, sawErr
	}
	return nil, ntok, sawErr
}

func init() {
	replayers["C16"] = func(raw json.RawMessage) *report.Failure {
		var c C16Case
		if err := json.Unmarshal(raw, &c); err != nil {
			return report.Failf("replay", "bad case: %v", err)
		}
		f, _, _ := checkC16(c)
		return f
	}
}

// c16OpAlphabet: the characters (a) leaves out - number syntax, every one-character
// operator, range brackets, and '!', '&', '|' which cannot start a token.
var c16OpAlphabet = []byte{'a', '5', '.', '-', '+', '~', '^', '=', '>', '<', '[', ']', '{', '}', ')', '?', '\\', ' ', '!', '&', '|'}

var c16Alphabet = []byte{'a', '5', '-', '\\', '"', '\'', '/', '*', ':', '(', ' ', '\n', 0xC3, 0xA9, 0xD9, 0xA3}

func c16Classify(st *report.Stats, c C16Case, ntok int, sawErr bool) {
	s := string(c.Input)
	var cls []string
	if !utf8.ValidString(s) {
		cls = append(cls, "invalid-utf8")
	}
	if strings.HasSuffix(s, `\`) {
		cls = append(cls, "ends-in-escape")
	}
	if sawErr {
		cls = append(cls, "error-token")
	}
	if strings.ContainsAny(s, `"'/`) {
		cls = append(cls, "delimiter")
	}
	if strings.Contains(s, `\`) {
		cls = append(cls, "escape")
	}
	if len(s) != utf8.RuneCountInString(s) {
		cls = append(cls, "multibyte")
	}
	if c.MustFail != "" {
		cls = append(cls, "built-lexical-error")
	}
	for _, k := range cls {
		st.Class(k)
	}
	if ntok >= 2 || len(cls) > 0 {
		st.NonTrivial(s)
		key := "plain"
		if len(cls) > 0 {
			key = cls[0]
		}
		st.Sample(key, c.Quoted)
	}
}

func TestC16(t *testing.T) {
	cfg := report.Load()
	st := report.New("C16", cfg)
	defer st.Finish(t)
	regress(t, st, "C16")
	_ = activeFindings(st, "C16")
	st.Rule("byte strings handed to internal/lex: every string up to a stated length over two byte alphabets (quotes / slash / escape / wildcard / colon / bracket / whitespace / the bytes of two multi-byte runes; and number syntax, every one-character operator, range brackets and three characters that cannot start a token), random strings mixing the hostile pool with random runes and raw bytes, strings with a lexical error inserted on purpose (unterminated quote or regexp, illegal character), printed queries, and rapid state-machine histories of Peek/Next. Oracle: reconstruction - each token's text is a prefix of the remaining input after skipping whitespace, tokens are non-empty, end on rune boundaries, never start at a character that cannot start a token, EOF only at the end, an error token only where the harness's own reading of the syntax finds a lexical error, EOF forever afterwards; Peek twice == Next and a peeked lexer yields the same stream as an unpeeked one; Parse fails (both default-field modes) whenever an error token was seen or a lexical error was inserted. Non-trivial = >= 2 tokens, or the input has an escape, delimiter, multi-byte rune, invalid UTF-8, a trailing backslash, an error token or an inserted lexical error; distinct by input.")

	run := func(stream string, c C16Case) bool {
		st.Eval()
		f, ntok, sawErr := checkC16(c)
		if f != nil {
			st.Violate(stream, c, f)
			return false
		}
		c16Classify(st, c, ntok, sawErr)
		return true
	}

	// (a) exhaustive byte strings over the 14-byte alphabet
	maxLen := 4
	if cfg.Thorough() {
		maxLen = 5
	}
	si := st.Stream("exhaustive-bytes", true, fmt.Sprintf("all strings of length 0..%d over the %d-byte alphabet %q", maxLen, len(c16Alphabet), string(c16Alphabet)))
	_ = si
	var total int64
	buf := make([]byte, maxLen)
	var rec func(l, pos int)
	rec = func(l, pos int) {
		if pos == l {
			if int(total%int64(cfg.NShards)) == cfg.Shard {
				b := append([]byte(nil), buf[:l]...)
				run("exhaustive-bytes", C16Case{Input: b, Quoted: fmt.Sprintf("%q", b)})
			}
			total++
			return
		}
		for _, ch := range c16Alphabet {
			buf[pos] = ch
			rec(l, pos+1)
		}
	}
	for l := 0; l <= maxLen; l++ {
		rec(l, 0)
	}

	// (a2) the same over the operator / number alphabet: signs, dots, comparison and
	// bracket characters, the suffix operators and three characters that cannot start
	// a token. Lengths 0 and 1 over shared bytes repeat (a); that is harmless.
	st.Stream("exhaustive-operator-bytes", true, fmt.Sprintf("all strings of length 0..%d over the %d-byte alphabet %q", maxLen, len(c16OpAlphabet), string(c16OpAlphabet)))
	total = 0
	var rec2 func(l, pos int)
	rec2 = func(l, pos int) {
		if pos == l {
			if int(total%int64(cfg.NShards)) == cfg.Shard {
				b := append([]byte(nil), buf[:l]...)
				run("exhaustive-operator-bytes", C16Case{Input: b, Quoted: fmt.Sprintf("%q", b)})
			}
			total++
			return
		}
		for _, ch := range c16OpAlphabet {
			buf[pos] = ch
			rec2(l, pos+1)
		}
	}
	for l := 0; l <= maxLen; l++ {
		rec2(l, 0)
	}

	// (b) random strings: hostile pool, random runes, raw bytes
	st.Rapid(t, "random-strings", cfg.N(40000, 3000000), func(rt *rapid.T) {
		var b []byte
		switch rapid.IntRange(0, 4).Draw(rt, "mode") {
		case 4:
			// aliasing runes: code points whose low byte is an ASCII symbol, quote,
			// letter or digit (truncating conversions, table lookups)
			n := rapid.IntRange(1, 10).Draw(rt, "n")
			for i := 0; i < n; i++ {
				if rapid.IntRange(0, 2).Draw(rt, "plain") == 0 {
					b = append(b, rapid.SampledFrom([]string{"a", " ", ":", "b", "5", "(", ")"}).Draw(rt, "ascii")...)
					continue
				}
				low := rapid.SampledFrom([]byte(`()[]{}:+=><~^-"'/*?\ a5_`)).Draw(rt, "low")
				hi := rapid.IntRange(1, 0x10FF).Draw(rt, "hi")
				r := rune(hi)<<8 | rune(low)
				if r >= 0xD800 && r <= 0xDFFF {
					r += 0x1000
				}
				b = utf8.AppendRune(b, r)
			}
		case 0:
			b = rapid.SliceOfN(rapid.Byte(), 0, 40).Draw(rt, "bytes")
		case 1:
			b = []byte(rapid.StringN(0, 30, -1).Draw(rt, "runes"))
		case 2:
			n := rapid.IntRange(1, 8).Draw(rt, "n")
			for i := 0; i < n; i++ {
				b = append(b, rapid.SampledFrom(gen.HostilePool).Draw(rt, "frag")...)
				if rapid.Bool().Draw(rt, "sp") {
					b = append(b, ' ')
				}
			}
		default:
			b = rapid.SliceOfN(rapid.SampledFrom(c16Alphabet), 0, 60).Draw(rt, "alpha")
		}
		c := C16Case{Input: b, Quoted: fmt.Sprintf("%q", b)}
		if !run("random-strings", c) {
			rt.Fatalf("violation")
		}
	})

	// (b2) model-based: random Peek / Next histories against the unpeeked stream
	st.Rapid(t, "peek-next-machine", cfg.N(6000, 300000), func(rt *rapid.T) {
		var s string
		if rapid.Bool().Draw(rt, "printed") {
			s = gen.Text(gen.GenTree(gen.ParseCfg).Draw(rt, "tree"), gen.Opts{Fill: gen.GenFill().Draw(rt, "fill")})
			if rapid.IntRange(0, 3).Draw(rt, "broken") == 0 {
				s += rapid.SampledFrom([]string{` "x`, " #", " /re", " '"}).Draw(rt, "tail")
			}
		} else {
			s = string(rapid.SliceOfN(rapid.SampledFrom(c16Alphabet), 0, 24).Draw(rt, "alpha"))
		}
		st.Eval()
		c := C16Case{Input: []byte(s), Quoted: fmt.Sprintf("%q", s)}
		if f := peekNextMachine(rt, s); f != nil {
			st.Violate("peek-next-machine", c, f)
			rt.Fatalf("violation")
		}
		st.Class("peek-next-history")
		st.NonTrivial("machine\x00" + s)
	})

	// (c) printed valid queries with whitespace fillers, and the same with a
	// lexical error inserted at a token boundary (clause 6b)
	badRunes := []string{"|", "!", ";", "&", "#", ",", "%", "→", "\x00", "\xA9", "@", "$", "`", "\v", "\f", "\u0085", "\u00a0", "\u2028", "\u2029", "\u3000", "\ufeff", "\u200b"}
	st.Rapid(t, "printed-queries", cfg.N(15000, 600000), func(rt *rapid.T) {
		tree := gen.GenTree(gen.ParseCfg).Draw(rt, "tree")
		o := gen.Opts{Fill: gen.GenFill().Draw(rt, "fill")}
		pr := gen.Print(tree, o)
		c := C16Case{}
		switch rapid.IntRange(0, 3).Draw(rt, "inject") {
		case 0:
			c.Input = []byte(gen.Join(pr.Toks, o))
		case 1: // a character that cannot start a token, at a token boundary
			at := rapid.IntRange(0, len(pr.Toks)).Draw(rt, "at")
			bad := rapid.SampledFrom(badRunes).Draw(rt, "bad")
			c.Input = []byte(joinWithInsert(pr.Toks, o, at, bad))
			c.MustFail = fmt.Sprintf("the character %q, which cannot start a token, at token boundary %d", bad, at)
		default: // an unterminated quote / regexp appended; no later delimiter closes it
			base := gen.Join(pr.Toks, o)
			open := rapid.SampledFrom([]string{`"`, `'`, `/`}).Draw(rt, "open")
			tail := rapid.SampledFrom([]string{"", "x", "x y", `x\`, "AND b"}).Draw(rt, "tail")
			if open == "/" && strings.HasSuffix(tail, `\`) {
				tail += "/"
			}
			c.Input = []byte(base + " " + open + tail)
			c.MustFail = fmt.Sprintf("an unterminated %s at the end", open)
		}
		c.Quoted = fmt.Sprintf("%q", c.Input)
		if !run("printed-queries", c) {
			rt.Fatalf("violation")
		}
	})
}

// peekNextMachine drives one lexer with a random interleaving of Peek and Next
// calls against the token list of an unpeeked twin (model-based, rapid's
// state-machine mode): Peek returns model[i] and leaves i alone, Next returns
// model[i] and advances; past the end both keep returning end-of-input.
func peekNextMachine(rt *rapid.T, s string) *report.Failure {
	var model []lex.Token
	twin := lex.Lex(s)
	for i := 0; i <= len(s)+2; i++ {
		tk := twin.Next()
		model = append(model, tk)
		if tk.Typ == lex.TEOF {
			break
		}
	}
	at := func(i int) lex.Token {
		if i >= len(model) {
			return model[len(model)-1]
		}
		// after an error token the stream is at its end
		for k := 0; k < i && k < len(model); k++ {
			if model[k].Typ == lex.TErr {
				return lex.Token{Typ: lex.TEOF, Val: "EOF"}
			}
		}
		return model[i]
	}
	l := lex.Lex(s)
	i := 0
	var f *report.Failure
	same := func(a, b lex.Token) bool { return a.Typ == b.Typ && (a.Val == b.Val || a.Typ == lex.TEOF) }
	rt.Repeat(map[string]func(*rapid.T){
		"peek": func(t *rapid.T) {
			if got := l.Peek(); f == nil && !same(got, at(i)) {
				f = report.Failf("peek-next-history", "on %q after %d Next calls Peek returned %v/%q, the unpeeked stream has %v/%q there", s, i, got.Typ, got.Val, at(i).Typ, at(i).Val)
			}
		},
		"next": func(t *rapid.T) {
			if got := l.Next(); f == nil && !same(got, at(i)) {
				f = report.Failf("peek-next-history", "on %q Next call %d returned %v/%q, the unpeeked stream has %v/%q there", s, i+1, got.Typ, got.Val, at(i).Typ, at(i).Val)
			}
			i++
		},
	})
	return f
}

// joinWithInsert joins tokens and inserts bad as its own space-separated piece
// before token index at (at == len: at the end).
func joinWithInsert(toks []gen.Tok, o gen.Opts, at int, bad string) string {
	var parts []string
	if at > 0 {
		parts = append(parts, gen.Join(toks[:at], o))
	}
	parts = append(parts, bad)
	if at < len(toks) {
		parts = append(parts, gen.Join(toks[at:], o))
	}
	return strings.Join(parts, " ")
}
