package core

import (
	"encoding/json"
	"fmt"
	"reflect"
	"strings"
	"testing"

	"github.com/grindlemire/go-lucene/verif/gen"
	"github.com/grindlemire/go-lucene/verif/report"
	"pgregory.net/rapid"
)

// LayoutCase is either a token sequence with a layout variant (whitespace,
// keyword case) or a tree with a parenthesis variant.
type LayoutCase struct {
	Kind string    `json:"kind"` // "layout" | "parens"
	Toks []gen.Tok `json:"toks,omitempty"`
	Var  gen.Opts  `json:"variant"`
	Tree *gen.Node `json:"tree,omitempty"`
	Base gen.Opts  `json:"base"`
	DF   string    `json:"df"`
	BTxt string    `json:"base_text,omitempty"`
	VTxt string    `json:"variant_text,omitempty"`
}

func recase(toks []gen.Tok, styles []int) []gen.Tok {
	out := make([]gen.Tok, len(toks))
	k := 0
	for i, t := range toks {
		out[i] = t
		if t.Class == gen.TKw && len(styles) > 0 {
			st := styles[k%len(styles)]
			k++
			switch st % 4 {
			case 1:
				out[i].Text = strings.ToLower(t.Sym)
			case 2:
				out[i].Text = t.Sym[:1] + strings.ToLower(t.Sym[1:])
			case 3:
				b := []byte(strings.ToLower(t.Sym))
				b[0] = t.Sym[0]
				if len(b) > 2 {
					b[1], b[2] = t.Sym[1]|0x20, t.Sym[2]
				}
				out[i].Text = string(b)
			default:
				out[i].Text = t.Sym
			}
		}
	}
	return out
}

func (c LayoutCase) texts() (string, string) {
	if c.Kind == "layout" {
		return gen.JoinSpace(c.Toks), gen.Join(recase(c.Toks, c.Var.KwCase), c.Var)
	}
	return gen.Text(c.Tree, c.Base), gen.Text(c.Tree, c.Var)
}

func checkC09(c LayoutCase) (f *report.Failure, accepted bool) {
	base, variant := c.texts()
	defer func() {
		if r := recover(); r != nil {
			f = report.Failf("panic", "Parse panicked on %q / %q: %v", base, variant, r)
		}
	}()
	tb, eb := parseWith(base, c.DF)
	tv, ev := parseWith(variant, c.DF)
	if eb == nil && ev != nil {
		return report.Failf(c.Kind+":variant-rejected", "base %q is accepted but its %s variant %q is rejected: %v (df=%q)", base, c.Kind, variant, ev, c.DF), true
	}
	if eb != nil && ev == nil && c.Kind == "layout" {
		return report.Failf("layout:variant-accepted", "base %q is rejected (%v) but its layout variant %q is accepted as %#v (df=%q)", base, eb, variant, tv, c.DF), false
	}
	if eb == nil && !reflect.DeepEqual(tb, tv) {
		return report.Failf(c.Kind+":tree-differs", "base %q\n   gives %#v\n variant %q\n   gives %#v (df=%q)", base, tb, variant, tv, c.DF), true
	}
	return nil, eb == nil
}

func init() {
	replayers["C09"] = func(raw json.RawMessage) *report.Failure {
		var c LayoutCase
		if err := json.Unmarshal(raw, &c); err != nil {
			return report.Failf("replay", "bad case: %v", err)
		}
		f, _ := checkC09(c)
		return f
	}
}

// fixed layout variants applied to every enumerated token sequence
var layoutVariants = []gen.Opts{
	{Fill: []string{"\t", "\n", "\r\n", "  "}, Lead: " \t", Trail: "\n", KwCase: []int{1}},
	{Fill: []string{""}, KwCase: []int{2, 3}},
	{Fill: []string{" \r ", "", "\n\n"}, Lead: "\n", Trail: " \r\n ", KwCase: []int{3, 1, 0}},
}

// parenSites lists where redundant parentheses may go: node ids that are the
// whole query, an operand of an explicitly written operator, or a field group's
// body; and ids of f:v / f:>v nodes whose value term may be wrapped.
func parenSites(tree *gen.Node, juxta map[int]bool) (nodes []int, vals []int) {
	id := 0
	var rec func(n *gen.Node, site bool)
	rec = func(n *gen.Node, site bool) {
		if n == nil {
			return
		}
		my := id
		id++
		if site {
			nodes = append(nodes, my)
		}
		if (n.K == gen.NField || n.K == gen.NCmp) && n.V != nil {
			vals = append(vals, my)
		}
		switch n.K {
		case gen.NAnd:
			rec(n.L, !juxta[my])
			rec(n.R, !juxta[my])
		case gen.NGroup:
			rec(n.L, true)
		default:
			rec(n.L, true)
			rec(n.R, true)
		}
	}
	rec(tree, true)
	return
}

func TestC09(t *testing.T) {
	cfg := report.Load()
	st := report.New("C09", cfg)
	defer st.Finish(t)
	st.Rule("(1) layout: every token sequence up to a stated length over the full and class-reduced alphabets, plus rapid token soups and printed trees, each compared with variants that refill every gap from {space, tab, LF, CRLF, runs, nothing where one neighbour is a one-character symbol other than '-'}, add leading/trailing whitespace and rewrite each AND/OR/NOT/TO in lower/title/mixed case: acceptance must be equal and accepted trees identical. (2) parentheses: printed trees (explicit operators and juxtaposition) with 1-2 redundant pairs around the whole query, operands of explicitly written operators, field-group bodies, or a field's value term: base accepted => variant accepted with the identical tree. Both default-field modes. Non-trivial = base has >= 3 tokens and the variant changes a gap to non-space/nothing, a keyword's case, or adds a pair not around the whole query; distinct by (variant text, df).")
	st.Assume("whitespace is only changed at boundaries between harness tokens; removing needed whitespace is not a layout change", "parentheses are never put around range bounds, the number of ~/^, or operands of juxtaposition")
	regress(t, st, "C09")
	active := activeFindings(st, "C09")

	run := func(stream string, c LayoutCase, ntok int) bool {
		st.Eval()
		f, accepted := checkC09(c)
		if f != nil {
			c.BTxt, c.VTxt = c.texts()
			st.Violate(stream, c, f)
			return false
		}
		if accepted {
			st.Class(c.Kind + "-accepted")
		} else {
			st.Class(c.Kind + "-rejected")
		}
		if ntok >= 3 {
			_, v := c.texts()
			st.NonTrivial(c.DF + "\x00" + v)
			if accepted {
				st.Sample(stream+"-accepted", fmt.Sprintf("%q", v))
			} else {
				st.Sample(stream+"-rejected", fmt.Sprintf("%q", v))
			}
		}
		return true
	}

	fullLen, redLen := 3, 4
	if cfg.Thorough() {
		fullLen, redLen = 4, 5
	}
	enum := func(name string, alpha []gen.Tok, maxLen int) {
		st.Stream(name, true, fmt.Sprintf("every token sequence of length 1..%d over %d tokens x %d fixed layout variants x df in {none, dflt}", maxLen, len(alpha), len(layoutVariants)))
		gen.EnumSeqs(alpha, maxLen, cfg.Shard, cfg.NShards, func(seq []gen.Tok) {
			cp := append([]gen.Tok(nil), seq...)
			for vi, v := range layoutVariants {
				df := ""
				if vi == 1 {
					df = "dflt"
				}
				run(name, LayoutCase{Kind: "layout", Toks: cp, Var: v, DF: df}, len(cp))
			}
		})
	}
	enum("enum-full-layout", gen.FullAlphabet(), fullLen)
	enum("enum-reduced-layout", gen.ReducedAlphabet(), redLen)

	dfGen := rapid.SampledFrom([]string{"", "", "dflt"})
	st.Rapid(t, "tree-layout", cfg.N(20000, 1000000), func(rt *rapid.T) {
		tree := gen.GenTree(gen.ParseCfg).Draw(rt, "tree")
		toks := gen.Print(tree, gen.Opts{}).Toks
		// mutate towards almost-valid inputs half of the time
		if rapid.Bool().Draw(rt, "mutate") && len(toks) > 1 {
			all := gen.FullAlphabet()
			for k := rapid.IntRange(1, 2).Draw(rt, "nmut"); k > 0; k-- {
				at := rapid.IntRange(0, len(toks)-1).Draw(rt, "at")
				switch rapid.IntRange(0, 2).Draw(rt, "mut") {
				case 0:
					toks = append(toks[:at:at], toks[at+1:]...)
				case 1:
					toks = append(toks[:at:at], append([]gen.Tok{rapid.SampledFrom(all).Draw(rt, "ins")}, toks[at:]...)...)
				default:
					toks[at] = rapid.SampledFrom(all).Draw(rt, "rep")
				}
				if len(toks) == 0 {
					break
				}
			}
		}
		if len(toks) == 0 {
			toks = []gen.Tok{gen.Term(gen.Word("a"))}
		}
		v := gen.Opts{Fill: gen.GenFill().Draw(rt, "fill"), Lead: rapid.SampledFrom([]string{"", " ", "\n\t"}).Draw(rt, "lead"),
			Trail: rapid.SampledFrom([]string{"", " ", "\r\n"}).Draw(rt, "trail"), KwCase: rapid.SliceOfN(rapid.IntRange(0, 3), 1, 4).Draw(rt, "kw")}
		if !run("tree-layout", LayoutCase{Kind: "layout", Toks: toks, Var: v, DF: dfGen.Draw(rt, "df")}, len(toks)) {
			rt.Fatalf("violation")
		}
	})

	parens := func(stream string, n int, allowJuxta bool) {
		st.Rapid(t, stream, n, func(rt *rapid.T) {
			tree := gen.GenTree(gen.ParseCfg).Draw(rt, "tree")
			base := gen.Opts{}
			if allowJuxta {
				base.Juxta = map[int]bool{}
				for _, g := range andGaps(tree, gen.Opts{}) {
					if g.demonstrated && rapid.Bool().Draw(rt, "jux") {
						base.Juxta[g.id] = true
					}
				}
			}
			nodes, vals := parenSites(tree, base.Juxta)
			if active["paren-next-to-juxtaposition"] && len(base.Juxta) > 0 {
				// open finding: a parenthesised operand next to a juxtaposed neighbour;
				// keep parentheses away from juxtaposed chains (counted)
				st.Excluded("paren-next-to-juxtaposition")
				base.Juxta = nil
				nodes, vals = parenSites(tree, nil)
			}
			v := base
			v.Extra, v.ValPar, v.LstPar, v.ArgPar = map[int]int{}, map[int]int{}, map[int]int{}, map[int]int{}
			argPar := false
			tree.Walk(func(id int, n *gen.Node) {
				// the number of ~ / ^ is the operator's second operand: (2) for 2
				if (n.K == gen.NBoost || n.K == gen.NFuzzy) && n.Arg && rapid.IntRange(0, 2).Draw(rt, "argpar") == 0 {
					v.ArgPar[id] = rapid.IntRange(1, 2).Draw(rt, "argpairs")
					argPar = true
				}
			})
			tree.Walk(func(id int, n *gen.Node) {
				if n.K == gen.NList && rapid.IntRange(0, 2).Draw(rt, "lstpar") == 0 {
					bits := len(n.Vals)
					if bits > 12 {
						bits = 12
					}
					v.LstPar[id] = rapid.IntRange(1, 1<<uint(bits)-1).Draw(rt, "mask")
				}
			})
			k := rapid.IntRange(1, 3).Draw(rt, "nsites")
			nonRoot := false
			for i := 0; i < k; i++ {
				if len(vals) > 0 && rapid.IntRange(0, 3).Draw(rt, "valsite") == 0 {
					v.ValPar[rapid.SampledFrom(vals).Draw(rt, "val")] = rapid.IntRange(1, 2).Draw(rt, "pairs")
					nonRoot = true
					continue
				}
				id := rapid.SampledFrom(nodes).Draw(rt, "node")
				v.Extra[id] = rapid.IntRange(1, 2).Draw(rt, "pairs")
				if id != 0 {
					nonRoot = true
				}
			}
			if len(v.LstPar) > 0 || argPar {
				nonRoot = true
			}
			ntok := 0
			if nonRoot {
				ntok = len(gen.Print(tree, base).Toks)
			}
			if !run(stream, LayoutCase{Kind: "parens", Tree: tree, Base: base, Var: v, DF: dfGen.Draw(rt, "df")}, ntok) {
				rt.Fatalf("violation")
			}
		})
	}
	parens("parens-explicit", cfg.N(25000, 1000000), false)
	parens("parens-juxtaposed", cfg.N(15000, 600000), true)
}
