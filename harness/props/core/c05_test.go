package core

import (
	"encoding/json"
	"fmt"
	"reflect"
	"testing"

	"github.com/grindlemire/go-lucene/verif/gen"
	"github.com/grindlemire/go-lucene/verif/report"
	"pgregory.net/rapid"
)

// TreeCase is a generated tree with the way it is written down.
type TreeCase struct {
	Tree *gen.Node `json:"tree"`
	Opts gen.Opts  `json:"opts"`
	Text string    `json:"text,omitempty"` // informational: recomputed on replay
}

func checkC05(c TreeCase) *report.Failure {
	text := gen.Text(c.Tree, c.Opts)
	want := c.Tree.Expr()
	var f *report.Failure
	func() {
		defer func() {
			if r := recover(); r != nil {
				f = report.Failf("panic", "Parse(%q) panicked: %v", text, r)
			}
		}()
		got, err := parseWith(text, "")
		if err != nil {
			f = report.Failf("rejected", "Parse(%q) failed: %v; the documented table gives %#v", text, err, want)
			return
		}
		if !reflect.DeepEqual(got, want) {
			f = report.Failf("tree-differs", "Parse(%q)\n   got  %#v\n   want %#v", text, got, want)
		}
	}()
	return f
}

func init() {
	replayers["C05"] = func(raw json.RawMessage) *report.Failure {
		var c TreeCase
		if err := json.Unmarshal(raw, &c); err != nil {
			return report.Failf("replay", "bad case: %v", err)
		}
		return checkC05(c)
	}
}

// precCells records which (outer operator, inner operator, position) pairs a tree
// exercises; a tree is non-trivial when it has at least one.
func precCells(n *gen.Node, add func(string)) int {
	cnt := 0
	var rec func(x *gen.Node)
	rec = func(x *gen.Node) {
		if x == nil || x.IsLeaf() {
			return
		}
		for _, ch := range []struct {
			c   *gen.Node
			pos string
		}{{x.L, "L"}, {x.R, "R"}} {
			if ch.c != nil && !ch.c.IsLeaf() {
				cnt++
				add(fmt.Sprintf("%s>%s@%s", x.K, ch.c.K, ch.pos))
			}
			rec(ch.c)
		}
	}
	rec(n)
	return cnt
}

func genOpts(rt *rapid.T, tree *gen.Node, explicitOnly bool) gen.Opts {
	o := gen.Opts{}
	switch rapid.IntRange(0, 5).Draw(rt, "style") {
	case 0:
		o.Full = true
	case 1, 2:
		o.Extra = map[int]int{}
		size := tree.Size()
		k := rapid.IntRange(1, 3).Draw(rt, "nextra")
		for i := 0; i < k; i++ {
			o.Extra[rapid.IntRange(0, size-1).Draw(rt, "extraid")] = rapid.IntRange(1, 2).Draw(rt, "pairs")
		}
	}
	if rapid.Bool().Draw(rt, "ws") {
		o.Fill = gen.GenFill().Draw(rt, "fill")
		o.Lead = rapid.SampledFrom([]string{"", " ", "\n", "\t "}).Draw(rt, "lead")
		o.Trail = rapid.SampledFrom([]string{"", " ", "\n", " \r\n"}).Draw(rt, "trail")
	}
	return o
}

func TestC05(t *testing.T) {
	cfg := report.Load()
	st := report.New("C05", cfg)
	defer st.Finish(t)
	st.Rule("query trees over leaves {bare term, f:v, comparison, range, value list, field group} x value kinds and operators {OR, AND, NOT, ^, ^n, ~, ~n, -, +}: every tree of operator depth <= 2 (quick) / <= 3 over a smaller leaf set (thorough) printed with parentheses exactly where the documented table OR < AND < NOT < ^ < ~ < - < + < field: requires them, plus rapid-generated deeper trees printed minimal / with redundant parentheses / fully parenthesised with random whitespace; oracle: Parse(text) deep-equals the tree built from the same generator value through the public expr constructors. Non-trivial = an operator is the operand of another operator (precedence or associativity decides the grouping); distinct by printed text.")
	st.Assume("the printer is the harness's statement of the documented precedence table", "expr constructors are trusted to build the expected tree", "always explicit AND (juxtaposition is C07)")
	regress(t, st, "C05")
	_ = activeFindings(st, "C05")

	run := func(stream string, c TreeCase) bool {
		st.Eval()
		if f := checkC05(c); f != nil {
			if len(c.Opts.Extra) == 0 {
				c.Tree = gen.Minimize(c.Tree, func(n *gen.Node) bool {
					ff := checkC05(TreeCase{Tree: n, Opts: c.Opts})
					return ff != nil && ff.Sub == f.Sub
				})
				f = checkC05(c)
			}
			c.Text = gen.Text(c.Tree, c.Opts)
			st.Violate(stream, c, f)
			return false
		}
		if precCells(c.Tree, st.Class) > 0 {
			text := gen.Text(c.Tree, c.Opts)
			st.NonTrivial(text)
			st.Sample(stream, text)
		}
		return true
	}

	leaves, depth := gen.LeafAlphabet(true), 2
	if !cfg.Thorough() {
		leaves = leaves[:12]
	}
	st.Stream("enum-depth2", true, fmt.Sprintf("all trees of operator depth <= 2 over %d leaves, operators AND OR NOT + - ^ ^2 ~ ~3 f:(E), minimal parentheses", len(leaves)))
	gen.EnumTrees(leaves, depth, gen.EnumOps{Suffix: true, Group: true}, cfg.Shard, cfg.NShards, func(n *gen.Node) {
		run("enum-depth2", TreeCase{Tree: n})
	})
	if cfg.Thorough() {
		small := gen.LeafAlphabet(false)[:4]
		small = append(small, gen.LeafAlphabet(false)[4])
		st.Stream("enum-depth3", true, fmt.Sprintf("all trees of operator depth <= 3 over %d leaves, operators AND OR NOT + - ^2 ~ (no group), minimal parentheses", len(small)))
		gen.EnumTrees(small[:3], 3, gen.EnumOps{Suffix: true}, cfg.Shard, cfg.NShards, func(n *gen.Node) {
			run("enum-depth3", TreeCase{Tree: n})
		})
	}
	st.Rapid(t, "random-trees", cfg.N(40000, 2000000), func(rt *rapid.T) {
		tree := gen.GenTree(gen.ParseCfg).Draw(rt, "tree")
		c := TreeCase{Tree: tree, Opts: genOpts(rt, tree, true)}
		if !run("random-trees", c) {
			rt.Fatalf("violation")
		}
	})
}
