package core

import (
	"fmt"
	"os"
	"strings"
	"testing"
	"unicode/utf8"

	"github.com/grindlemire/go-lucene/internal/lex"
	"github.com/grindlemire/go-lucene/verif/gen"
	"github.com/grindlemire/go-lucene/verif/report"
)

// fuzzMaxLen bounds the inputs of the native fuzz targets: JSON encoding is quadratic in
// the nesting depth (a 4000-term chain takes seconds), and the engine kills a worker that
// spends too long on one input and reports that as a failing input. Large inputs are the
// business of the big-shape streams of C01.
const fuzzMaxLen = 1500

// seedInputs are the starting corpus of the string-level fuzz targets: the
// repository's own test inputs, the hostile pool and all short token sequences.
func seedInputs() []string {
	out := []string{
		"A:B AND C:D", "+foo OR (NOT(B))", "A:bar", "NOT(b:c)", "z:[* TO 10]", "x:[10 TO *] AND NOT(y:[1 TO 5]", "(+a:b -c:d) OR (z:[1 TO *] NOT(foo))",
		`+bbq:"woo yay"`, `-bbq:"woo"`, `(a:b)^10`, `a:foo~`, "a:(foo OR baz OR bar)", `a:\(1\+1\)\:2`, `foo\ bar:b`, "a:/b [c]/", `url:/example.com\/foo\/bar\/.*/`,
		"a OR b AND c:[* to -1] OR d AND NOT +e:f", "a:>10 AND -b:<=-20", "a:{foo TO bar}", "a:'b'", "1a:b", `title:"The Right Way" AND go`, "a:b~2 AND foo", "(title:foo OR title:bar)^1.5 AND (body:foo OR body:bar)",
		"a:*", "a:[b c TO d]", "(() NOT a)", "a~(+2)", `a:""`, "a:NaN", "a:(1 OR 2)", "a:[1.5 TO 9007199254740993]", `a:["x,y" TO "*"]`,
	}
	out = append(out, gen.HostilePool...)
	out = append(out, gen.WeirdNumerics...)
	gen.EnumSeqs(gen.FullAlphabet(), 2, 0, 1, func(seq []gen.Tok) { out = append(out, gen.JoinSpace(seq)) })
	return out
}

func fuzzFail(t *testing.T, st *report.Stats, c any, f *report.Failure) {
	st.Violate("native-fuzz", c, f)
	st.Flush()
	t.Fatalf("%s: %s", f.Sub, f.Msg)
}

func FuzzC01(f *testing.F) {
	for _, s := range seedInputs() {
		f.Add(s, "")
		f.Add(s, "dflt")
	}
	f.Fuzz(func(t *testing.T, s, df string) {
		if len(s)+len(df) > fuzzMaxLen {
			return
		}
		st := report.FuzzStats("C01")
		st.Eval()
		c := mkIn(s, df, 0)
		fl, accepted := checkC01(c, nil)
		if fl != nil {
			fuzzFail(t, st, c, fl)
		}
		if accepted || len(strings.TrimSpace(s)) > 0 {
			st.NonTrivial(df + "\x00" + s)
		}
	})
}

func FuzzC10(f *testing.F) {
	for _, s := range seedInputs() {
		f.Add(s, "")
		f.Add(s, "dflt")
	}
	f.Fuzz(func(t *testing.T, s, df string) {
		if len(s)+len(df) > fuzzMaxLen {
			return
		}
		st := report.FuzzStats("C10")
		st.Eval()
		c := mkIn(s, df, 0)
		fl, accepted, cls := checkC10(c)
		if fl != nil {
			fuzzFail(t, st, c, fl)
		}
		st.Class(cls)
		if accepted || len(strings.Fields(s)) >= 2 {
			st.NonTrivial(df + "\x00" + s)
		}
	})
}

func FuzzC16(f *testing.F) {
	for _, s := range seedInputs() {
		f.Add([]byte(s))
	}
	f.Fuzz(func(t *testing.T, b []byte) {
		if len(b) > fuzzMaxLen {
			return
		}
		st := report.FuzzStats("C16")
		st.Eval()
		c := C16Case{Input: b, Quoted: fmt.Sprintf("%q", b)}
		fl, ntok, sawErr := checkC16(c)
		if fl != nil {
			fuzzFail(t, st, c, fl)
		}
		c16Classify(st, c, ntok, sawErr)
	})
}

func FuzzC12(f *testing.F) {
	for _, s := range seedInputs() {
		f.Add(s, "")
	}
	f.Fuzz(func(t *testing.T, s, df string) {
		if len(s)+len(df) > fuzzMaxLen {
			return
		}
		if !utf8.ValidString(s) || !utf8.ValidString(df) {
			return
		}
		st := report.FuzzStats("C12")
		st.Eval()
		c := mkIn(s, df, 0)
		fl, nt, cls := checkC12(c)
		if fl != nil {
			fuzzFail(t, st, c, fl)
		}
		st.Class(cls)
		if nt {
			st.NonTrivial(df + "\x00" + s)
		}
	})
}

func FuzzC13(f *testing.F) {
	for _, tpl := range docTemplates {
		n := strings.Count(tpl, "%s")
		for _, sc := range []string{`"a"`, `""`, `5`, `null`, `[]`, `{"left":"a","operator":"NOT"}`} {
			args := make([]any, n)
			for i := range args {
				args[i] = sc
			}
			f.Add([]byte(fmt.Sprintf(tpl, args...)))
		}
	}
	if dir := os.Getenv("VERIF_CORPUS"); dir != "" {
		ents, _ := os.ReadDir(dir + "/json")
		for _, e := range ents {
			if b, err := os.ReadFile(dir + "/json/" + e.Name()); err == nil {
				f.Add(b)
			}
		}
	}
	f.Fuzz(func(t *testing.T, b []byte) {
		if len(b) > fuzzMaxLen {
			return
		}
		st := report.FuzzStats("C13")
		st.Eval()
		c := mkDoc(b)
		fl, stage, ops := checkC13(c)
		if fl != nil {
			fuzzFail(t, st, c, fl)
		}
		st.Class([]string{"rejected-by-decoder", "decoded-not-validated", "decoded-and-validated"}[stage])
		if stage >= 1 && ops >= 1 {
			st.NonTrivial(string(b))
		}
	})
}

// lexToks cuts an input into harness tokens with the lexer under test (the only
// place where an oracle's input comes from the code it judges; segmentation itself
// is C16's responsibility). ok is false if the lexer reported an error.
func lexToks(s string) (toks []gen.Tok, ok bool) {
	l := lex.Lex(s)
	for i := 0; i <= len(s)+1; i++ {
		tk := l.Next()
		switch tk.Typ {
		case lex.TEOF:
			return toks, true
		case lex.TErr:
			return nil, false
		case lex.TLiteral, lex.TQuoted, lex.TRegexp:
			toks = append(toks, gen.RawTerm(tk.Val))
		case lex.TAnd:
			toks = append(toks, gen.Kw(tk.Val, "AND"))
		case lex.TOr:
			toks = append(toks, gen.Kw(tk.Val, "OR"))
		case lex.TNot:
			toks = append(toks, gen.Kw(tk.Val, "NOT"))
		case lex.TTO:
			toks = append(toks, gen.Kw(tk.Val, "TO"))
		default:
			toks = append(toks, gen.Sym(tk.Val))
		}
	}
	return nil, false
}

func FuzzC06(f *testing.F) {
	for _, s := range seedInputs() {
		f.Add(s, "")
		f.Add(s, "dflt")
	}
	f.Fuzz(func(t *testing.T, s, df string) {
		if len(s)+len(df) > fuzzMaxLen {
			return
		}
		toks, ok := lexToks(s)
		if !ok || len(toks) == 0 {
			return
		}
		st := report.FuzzStats("C06")
		st.Eval()
		c := TokCase{Toks: toks, DF: df, Raw: []byte(s)}
		fl, accepted := checkC06(c)
		if fl != nil {
			c.Text = s
			fuzzFail(t, st, c, fl)
		}
		if accepted && len(toks) >= 3 {
			st.NonTrivial(df + "\x00" + classSeq(toks))
		}
	})
}

func FuzzC11(f *testing.F) {
	for _, s := range seedInputs() {
		f.Add(s)
	}
	f.Fuzz(func(t *testing.T, s string) {
		if len(s) > fuzzMaxLen {
			return
		}
		toks, ok := lexToks(s)
		if !ok || len(toks) == 0 || strings.Contains(s, "zzdflt") {
			return
		}
		st := report.FuzzStats("C11")
		st.Eval()
		c := TokCase{Toks: toks, DF: "zzdflt", Raw: []byte(s)}
		fl, accepted := checkC11(c)
		if fl != nil {
			c.Text = s
			fuzzFail(t, st, c, fl)
		}
		if accepted {
			bare, fielded, unary := c11Context(toks)
			if bare && (fielded || unary) {
				st.NonTrivial(classSeq(toks))
			}
		}
	})
}
