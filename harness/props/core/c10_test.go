package core

import (
	"bytes"
	"encoding/json"
	"fmt"
	"strings"
	"testing"

	"github.com/grindlemire/go-lucene/pkg/lucene/expr"
	"github.com/grindlemire/go-lucene/verif/model"
	"github.com/grindlemire/go-lucene/verif/report"
)

// checkC10: all-or-nothing results and well-formed accepted trees.
func checkC10(c InCase) (f *report.Failure, accepted bool, cls string) {
	s := string(c.Input)
	defer func() {
		if r := recover(); r != nil {
			// a panic is C01's business; here it only makes the case unusable
			f, cls = nil, "panic-skipped"
		}
	}()
	e, err := parseWith(s, c.DF)
	if (e == nil) == (err == nil) {
		return report.Failf("parse-xor", "Parse(%s, df=%q) returned expression %v and error %v together", c.Quoted, c.DF, e, err), false, ""
	}
	sql, serr := toPG(s, c.DF)
	if !((sql != "" && serr == nil) || (sql == "" && serr != nil)) {
		return report.Failf("topostgres-xor", "ToPostgres(%s, df=%q) returned %q with error %v", c.Quoted, c.DF, sql, serr), e != nil, ""
	}
	psql, _, perr := toPGParam(s, c.DF)
	if perr != nil && psql != "" {
		return report.Failf("param-sql-with-error", "ToParameterizedPostgres(%s, df=%q) returned SQL %q together with error %v", c.Quoted, c.DF, psql, perr), e != nil, ""
	}
	if err != nil {
		if serr == nil || perr == nil {
			return report.Failf("render-accepts-unparsable", "Parse(%s, df=%q) fails (%v) but a renderer succeeded: %q / %q", c.Quoted, c.DF, err, sql, psql), false, ""
		}
		if strings.Contains(err.Error(), "validation") {
			return nil, false, "rejected-by-validator"
		}
		return nil, false, "rejected"
	}
	if verr := expr.Validate(e); verr != nil {
		return report.Failf("validate", "Parse(%s, df=%q) returned a tree that fails Validate: %v; tree %#v", c.Quoted, c.DF, verr, e), true, ""
	}
	if sherr := model.Shape(e, model.ShapeOpts{}); sherr != nil {
		return report.Failf("shape", "Parse(%s, df=%q) returned a malformed tree: %v; tree %#v", c.Quoted, c.DF, sherr, e), true, ""
	}
	cls = "accepted"
	if serr != nil {
		cls = "accepted-render-error"
	}
	return nil, true, cls
}

func init() {
	replayers["C10"] = func(raw json.RawMessage) *report.Failure {
		c, f := decodeIn(raw)
		if f != nil {
			return f
		}
		f, _, _ = checkC10(c)
		return f
	}
}

func hasFieldOrUnary(e *expr.Expression) bool {
	if e == nil {
		return false
	}
	switch e.Op {
	case expr.Literal, expr.Wild, expr.Regexp:
		return false
	case expr.And, expr.Or:
		l, _ := e.Left.(*expr.Expression)
		r, _ := e.Right.(*expr.Expression)
		return hasFieldOrUnary(l) || hasFieldOrUnary(r)
	}
	return true
}

func TestC10(t *testing.T) {
	cfg := report.Load()
	st := report.New("C10", cfg)
	defer st.Finish(t)
	st.Rule("same input population as C01 (exhaustive token sequences, printed trees, random strings) x default-field option; oracle: Parse returns exactly one of (tree, error); accepted trees pass expr.Validate and the harness's independent shape predicate (which also enters range bounds and list elements); ToPostgres string/error xor; parameterized SQL empty on error; renderers fail whenever Parse fails (the error text is not compared). Non-trivial = accepted input whose tree has a field-scoped or unary node, or an input rejected after >= 2 tokens; distinct by (input, default field).")
	st.Assume("the shape predicate encodes the property text: field positions / range bounds single terms, lists >= 2 plain values, unary operators one operand, LIKE has a pattern on the right")
	regress(t, st, "C10")
	_ = activeFindings(st, "C10")
	sc := streamCfg{fullLen: 3, reducedLen: 4, focusLen: 5, trees: cfg.N(12000, 1000000), strings: cfg.N(20000, 2000000), dfs: []string{"", "dflt"}}
	if cfg.Thorough() {
		sc.fullLen, sc.reducedLen, sc.focusLen = 4, 5, 7
	}
	check := func(stream string, c InCase) bool {
		st.Eval()
		f, accepted, cls := checkC10(c)
		if f != nil {
			st.Violate(stream, c, f)
			return false
		}
		st.Class(cls)
		key := c.DF + "\x00" + string(c.Input)
		if accepted {
			e, _ := parseWith(string(c.Input), c.DF)
			if hasFieldOrUnary(e) {
				st.NonTrivial(key)
				st.Sample(cls+":"+stream, c.Quoted+" df="+c.DF)
			}
		} else if c.Ntok >= 2 || (c.Ntok == 0 && len(bytes.Fields(c.Input)) >= 2) {
			st.NonTrivial(key)
			st.Sample(cls+":"+stream, c.Quoted+" df="+c.DF)
		}
		return true
	}
	inputStreams(t, st, sc, check)
	if cfg.Shard == 0 {
		// sizes around 2^16 (PostgreSQL's limit of 65535 bind parameters is the kind of
		// boundary a renderer may start to care about)
		st.Stream("huge-inputs", false, "value lists and AND chains with 65535, 65536 and 70000 values")
		for _, n := range []int{65535, 65536, 70000} {
			var b strings.Builder
			b.WriteString("id:(")
			for i := 0; i < n; i++ {
				if i > 0 {
					b.WriteString(" OR ")
				}
				fmt.Fprintf(&b, "v%d", i)
			}
			b.WriteString(")")
			check("huge-inputs", mkIn(b.String(), "", 0))
			if cfg.Thorough() && n == 65536 { // quadratic in the parser: about a minute
				check("huge-inputs", mkIn(strings.TrimSuffix(strings.Repeat("a:1 ", n), " "), "dflt", 0))
			}
		}
	}
}
