package core

import (
	"encoding/json"
	"errors"
	"fmt"
	"sort"
	"strings"
	"testing"

	lucene "github.com/grindlemire/go-lucene"
	"github.com/grindlemire/go-lucene/pkg/driver"
	"github.com/grindlemire/go-lucene/pkg/lucene/expr"
	"github.com/grindlemire/go-lucene/verif/gen"
	"github.com/grindlemire/go-lucene/verif/report"
	"pgregory.net/rapid"
)

// FoldCase: a tree (generated, or one of the hand-built ones), a render-function
// map described by Mode/Op.
type FoldCase struct {
	Tree  *gen.Node `json:"tree,omitempty"`
	Built int       `json:"built"` // index into builtTrees, -1: use Tree
	Mode  string    `json:"mode"`  // trace | override | remove-traced | remove-shared | fail | stock
	Op    int       `json:"op"`    // operator concerned (override/remove/fail)
	Embed bool      `json:"embed"` // go through a README-style embedding type
	JSON  bool      `json:"json"`  // take the tree through a JSON round trip first (re-inferred leaf kinds)
	Text  string    `json:"text,omitempty"`
}

var allOps = []expr.Operator{expr.And, expr.Or, expr.Equals, expr.Like, expr.Not, expr.Range, expr.Must, expr.MustNot, expr.Boost, expr.Fuzzy,
	expr.Literal, expr.Wild, expr.Regexp, expr.Greater, expr.Less, expr.GreaterEq, expr.LessEq, expr.In, expr.List}

// trees that pass Validate and are built through the constructors only
var builtTrees = []func() *expr.Expression{
	func() *expr.Expression { return expr.Eq("a", expr.Eq("b", 1)) },
	func() *expr.Expression { return expr.AND(expr.Lit(5), expr.REGEXP("/x/")) },
	func() *expr.Expression {
		return expr.NOT(expr.IN("a", expr.LIST(expr.Lit(1), expr.Lit("x"), expr.Lit(2.5))))
	},
	func() *expr.Expression {
		return expr.OR(expr.Rang("a", 1.5, "z", true), expr.MUST(expr.Rang("b", "*", 7, false)))
	},
	func() *expr.Expression { return expr.BOOST(expr.BOOST(expr.FUZZY(expr.Lit("a"), 2), 3.0), 2.0) },
	func() *expr.Expression { return expr.MUSTNOT(expr.NOT(expr.LIKE("c", expr.WILD("a*")))) },
	func() *expr.Expression { return expr.GREATER("a", expr.OR(expr.Lit("x"), expr.LESSEQ("b", 2))) },
	func() *expr.Expression { return expr.WILD("w?") },
	func() *expr.Expression {
		return expr.IN("a", expr.LIST(expr.Lit("foo"), expr.WILD("b*r"), expr.REGEXP("/x/"), expr.Lit(2)))
	},
	func() *expr.Expression { return expr.Eq("name", "jo*n?") }, // LIKE built from raw strings
	func() *expr.Expression {
		return expr.AND(expr.Rang("a", 2.5, 2.5, true), expr.NOT(expr.Rang("b", "foo", "foo", true)))
	},
	func() *expr.Expression {
		return expr.OR(expr.Rang("a", expr.WILD("x*"), expr.REGEXP("/y/"), true), expr.Expr("c", expr.Equals, expr.WILD("d?")))
	},
}

type myDriver struct{ driver.Base }

type call struct {
	id          int
	op          expr.Operator
	left, right string
	result      string
}

type tracer struct {
	log []call
}

func (tr *tracer) fn(op expr.Operator) driver.RenderFN {
	return func(left, right string) (string, error) {
		id := len(tr.log)
		res := fmt.Sprintf("⟦%d:%s|%s‖%s⟧", id, op, left, right)
		tr.log = append(tr.log, call{id, op, left, right, res})
		return res, nil
	}
}

func (tr *tracer) fullMap() map[expr.Operator]driver.RenderFN {
	m := map[expr.Operator]driver.RenderFN{}
	for _, op := range allOps {
		m[op] = tr.fn(op)
	}
	return m
}

// segments extracts the top-level ⟦...⟧ results from an argument string.
func segments(s string) []string {
	var out []string
	depth, start := 0, 0
	for i, r := range s {
		switch r {
		case '⟦':
			if depth == 0 {
				start = i
			}
			depth++
		case '⟧':
			depth--
			if depth == 0 {
				out = append(out, s[start:i+len("⟧")])
			}
		}
	}
	return out
}

func countNodes(x any, per map[expr.Operator]int) int {
	n := 0
	switch v := x.(type) {
	case *expr.Expression:
		if v == nil {
			return 0
		}
		n = 1
		per[v.Op]++
		n += countNodes(v.Left, per) + countNodes(v.Right, per)
	case []*expr.Expression:
		for _, e := range v {
			n += countNodes(e, per)
		}
	case *expr.RangeBoundary:
		if v != nil {
			n += countNodes(v.Min, per) + countNodes(v.Max, per)
		}
	}
	return n
}

// collectNodes lists the expression nodes of a tree in pre-order (the nodes
// countNodes counts).
func collectNodes(x any, out *[]*expr.Expression) {
	switch v := x.(type) {
	case *expr.Expression:
		if v == nil {
			return
		}
		*out = append(*out, v)
		collectNodes(v.Left, out)
		collectNodes(v.Right, out)
	case []*expr.Expression:
		for _, e := range v {
			collectNodes(e, out)
		}
	case *expr.RangeBoundary:
		if v != nil {
			collectNodes(v.Min, out)
			collectNodes(v.Max, out)
		}
	}
}

// foldCheck is the tracing fold M6: it lays the call log over the expression tree.
type foldCheck struct {
	byResult map[string]call
	used     map[int]bool
}

func (fc *foldCheck) node(e *expr.Expression, result string, parentID int) error {
	c, ok := fc.byResult[result]
	if !ok {
		return fmt.Errorf("no call produced %q (expected the result of a %v node)", result, e.Op)
	}
	if fc.used[c.id] {
		return fmt.Errorf("call #%d used for two nodes", c.id)
	}
	fc.used[c.id] = true
	if c.op != e.Op {
		return fmt.Errorf("node with operator %v was rendered by the function registered for %v", e.Op, c.op)
	}
	if parentID >= 0 && c.id >= parentID {
		return fmt.Errorf("child call #%d (%v) happened after its parent's call #%d", c.id, c.op, parentID)
	}
	if err := fc.child(e.Left, c.left, c.id, "left"); err != nil {
		return fmt.Errorf("%v#%d: %w", e.Op, c.id, err)
	}
	if err := fc.child(e.Right, c.right, c.id, "right"); err != nil {
		return fmt.Errorf("%v#%d: %w", e.Op, c.id, err)
	}
	return nil
}

func (fc *foldCheck) child(x any, arg string, parentID int, side string) error {
	switch v := x.(type) {
	case *expr.Expression:
		if v == nil {
			return nil
		}
		a := arg
		if strings.HasPrefix(a, "(") && strings.HasSuffix(a, ")") {
			a = a[1 : len(a)-1]
		}
		if _, ok := fc.byResult[a]; !ok {
			return fmt.Errorf("%s argument %q is not the rendered child (optionally in one pair of parentheses)", side, arg)
		}
		return fc.node(v, a, parentID)
	case []*expr.Expression:
		segs := segments(arg)
		if len(segs) != len(v) {
			return fmt.Errorf("%s argument %q holds %d rendered children, the list has %d", side, arg, len(segs), len(v))
		}
		for i, it := range v {
			if err := fc.node(it, segs[i], parentID); err != nil {
				return err
			}
		}
	case *expr.RangeBoundary:
		if v == nil {
			return nil
		}
		var want []*expr.Expression
		for _, b := range []any{v.Min, v.Max} {
			if be, ok := b.(*expr.Expression); ok && be != nil {
				want = append(want, be)
			}
		}
		segs := segments(arg)
		if len(segs) != len(want) {
			return fmt.Errorf("%s argument %q holds %d rendered bounds, the boundary has %d", side, arg, len(segs), len(want))
		}
		for i, it := range want {
			if err := fc.node(it, segs[i], parentID); err != nil {
				return err
			}
		}
	}
	return nil
}

func (c FoldCase) expr() *expr.Expression {
	var e *expr.Expression
	if c.Built >= 0 {
		e = builtTrees[c.Built%len(builtTrees)]()
	} else {
		e = c.Tree.Expr()
	}
	if c.JSON {
		if raw, err := json.Marshal(e); err == nil {
			var d expr.Expression
			if json.Unmarshal(raw, &d) == nil {
				return &d
			}
		}
	}
	return e
}

func render(m map[expr.Operator]driver.RenderFN, e *expr.Expression, embed bool) (string, error) {
	if embed {
		return myDriver{driver.Base{RenderFNs: m}}.Render(e)
	}
	return driver.Base{RenderFNs: m}.Render(e)
}

func containsMarker(e *expr.Expression) bool {
	bad := false
	walkLeaves(e, func(_ expr.Operator, v any) {
		if s, ok := v.(string); ok && strings.ContainsAny(s, "⟦⟧‖") {
			bad = true
		}
		if s, ok := v.(expr.Column); ok && strings.ContainsAny(string(s), "⟦⟧‖") {
			bad = true
		}
	})
	return bad
}

func checkC15(c FoldCase) (f *report.Failure, nodes int, distinctOps int) {
	defer func() {
		if r := recover(); r != nil {
			f = report.Failf("panic", "Render panicked (%s, op %v): %v", c.Mode, expr.Operator(c.Op), r)
		}
	}()
	e := c.expr()
	if err := expr.Validate(e); err != nil || containsMarker(e) {
		return nil, 0, 0
	}
	per := map[expr.Operator]int{}
	nodes = countNodes(e, per)
	distinctOps = len(per)
	op := expr.Operator(c.Op)
	switch c.Mode {
	case "trace":
		tr := &tracer{}
		out, err := render(tr.fullMap(), e, c.Embed)
		if err != nil {
			return report.Failf("trace-error", "Render with a function for every operator failed: %v (tree %#v)", err, e), nodes, distinctOps
		}
		if len(tr.log) != nodes {
			return report.Failf("visit-count", "tree %#v has %d nodes but %d render functions were called", e, nodes, len(tr.log)), nodes, distinctOps
		}
		fc := &foldCheck{byResult: map[string]call{}, used: map[int]bool{}}
		for _, cl := range tr.log {
			fc.byResult[cl.result] = cl
		}
		if err := fc.node(e, out, -1); err != nil {
			return report.Failf("fold", "Render of %#v is not the bottom-up fold with the supplied functions: %v\n  output %s", e, err, out), nodes, distinctOps
		}
		if len(fc.used) != len(tr.log) {
			return report.Failf("stray-call", "tree %#v: %d calls were made but only %d belong to the tree", e, len(tr.log), len(fc.used)), nodes, distinctOps
		}
	case "override":
		base, berr := render(driver.Shared, e, c.Embed)
		m := map[expr.Operator]driver.RenderFN{}
		for k, v := range driver.Shared {
			m[k] = v
		}
		orig, has := driver.Shared[op]
		if !has {
			return nil, nodes, distinctOps
		}
		calls := 0
		leafOp := op == expr.Literal || op == expr.Wild || op == expr.Regexp
		m[op] = func(l, r string) (string, error) {
			calls++
			s, err := orig(l, r)
			if leafOp || err != nil {
				return s, err // parents parse leaf output: only count the calls
			}
			return "⟦" + s + "⟧", nil
		}
		out, err := render(m, e, c.Embed)
		if (err == nil) != (berr == nil) {
			return report.Failf("override-error", "overriding %v changed whether Render fails: %v vs %v", op, berr, err), nodes, distinctOps
		}
		if berr != nil {
			return nil, nodes, distinctOps
		}
		if calls != per[op] {
			return report.Failf("override-calls", "tree %#v has %d %v nodes but the function registered for %v was called %d times", e, per[op], op, op, calls), nodes, distinctOps
		}
		stripped := strings.NewReplacer("⟦", "", "⟧", "").Replace(out)
		if stripped != base {
			return report.Failf("override-elsewhere", "replacing only %v's function changed the output elsewhere:\n  shared   %s\n  override %s", op, base, out), nodes, distinctOps
		}
		if !leafOp && strings.Count(out, "⟦") != per[op] {
			return report.Failf("override-marks", "expected %d marked %v nodes, output %s", per[op], op, out), nodes, distinctOps
		}
	case "remove-traced", "remove-shared", "fail":
		var m map[expr.Operator]driver.RenderFN
		var full string
		if c.Mode == "remove-shared" {
			m = map[expr.Operator]driver.RenderFN{}
			for k, v := range driver.Shared {
				m[k] = v
			}
			full, _ = render(driver.Shared, e, c.Embed)
			if _, ferr := render(driver.Shared, e, c.Embed); ferr != nil {
				return nil, nodes, distinctOps
			}
		} else {
			tr := &tracer{}
			full, _ = render(tr.fullMap(), e, c.Embed)
			tr2 := &tracer{}
			m = tr2.fullMap()
		}
		if c.Mode == "fail" {
			m[op] = func(l, r string) (string, error) { return "", errors.New("refused") }
		} else {
			delete(m, op)
		}
		out, err := render(m, e, c.Embed)
		if per[op] > 0 {
			if err == nil {
				return report.Failf("missing-fn-no-error", "tree %#v contains %v, whose function is %s, but Render returned %q without error", e, op, map[bool]string{true: "failing", false: "not registered"}[c.Mode == "fail"], out), nodes, distinctOps
			}
			if c.Mode != "fail" && out != "" {
				return report.Failf("partial-output", "Render failed (%v) but still returned %q", err, out), nodes, distinctOps
			}
		} else {
			if err != nil || out != full {
				return report.Failf("removal-affects-others", "tree %#v does not contain %v, yet removing its function changed the result: %q (%v) vs %q", e, op, out, err, full), nodes, distinctOps
			}
		}
	case "blank":
		// one operator's function returns the empty string: every node's function must
		// still be called exactly once and the root result returned
		tr := &tracer{}
		m := tr.fullMap()
		inner := m[op]
		m[op] = func(l, r string) (string, error) {
			_, _ = inner(l, r)
			tr.log[len(tr.log)-1].result = ""
			return "", nil
		}
		out, err := render(m, e, c.Embed)
		if err != nil {
			return report.Failf("blank-error", "Render failed although every operator has a function (one of them returns the empty string): %v", err), nodes, distinctOps
		}
		if len(tr.log) != nodes {
			return report.Failf("blank-visit-count", "tree %#v has %d nodes but %d render functions were called when the function of %v returns the empty string", e, nodes, len(tr.log), op), nodes, distinctOps
		}
		calls := map[expr.Operator]int{}
		for _, cl := range tr.log {
			calls[cl.op]++
		}
		for o, n := range per {
			if calls[o] != n {
				return report.Failf("blank-visit-count", "tree %#v has %d %v nodes but their function was called %d times when the function of %v returns the empty string", e, n, o, calls[o], op), nodes, distinctOps
			}
		}
		if last := tr.log[len(tr.log)-1]; out != last.result {
			return report.Failf("blank-root", "Render returned %q, the root call returned %q", out, last.result), nodes, distinctOps
		}
	case "constant-leaves":
		// README-style placeholder driver: every leaf function returns the same text.
		// The function of each LIST node must still receive one rendered item per list
		// value (the fold hands the rendered children to the function; it does not
		// compare, merge or drop them)
		if per[expr.List] == 0 {
			return nil, nodes, distinctOps
		}
		tr := &tracer{}
		m := tr.fullMap()
		for _, lo := range []expr.Operator{expr.Literal, expr.Wild, expr.Regexp} {
			m[lo] = func(l, r string) (string, error) { return "$v", nil }
		}
		var got []int
		m[expr.List] = func(l, r string) (string, error) {
			got = append(got, strings.Count(l, "$v")+strings.Count(r, "$v"))
			return "[" + l + "]", nil
		}
		out, err := render(m, e, c.Embed)
		if err != nil {
			return report.Failf("constant-leaves-error", "Render failed although every operator has a function (the leaf functions all return $v): %v", err), nodes, distinctOps
		}
		var all []*expr.Expression
		collectNodes(e, &all)
		var want []int
		for _, n := range all {
			if n.Op == expr.List {
				if items, ok := n.Left.([]*expr.Expression); ok {
					want = append(want, len(items))
				}
			}
		}
		sort.Ints(got)
		sort.Ints(want)
		if fmt.Sprint(got) != fmt.Sprint(want) {
			return report.Failf("list-items-dropped", "tree %#v: its LIST nodes hold %v values; with leaf functions that all return $v the LIST functions received %v rendered items (output %s)", e, want, got, out), nodes, distinctOps
		}
	case "undefined-node":
		// one node of the tree (the (Op mod nodes)-th in pre-order) becomes the zero
		// Expression: its operator, Undefined, has a function in no map, so Render has to
		// fail and return nothing - under the tracing map, under Shared and for the
		// stock driver alike
		var all []*expr.Expression
		collectNodes(e, &all)
		if len(all) == 0 {
			return nil, nodes, distinctOps
		}
		victim := all[c.Op%len(all)]
		was := victim.Op
		*victim = expr.Expression{}
		tr := &tracer{}
		for name, m := range map[string]map[expr.Operator]driver.RenderFN{"a function for every operator": tr.fullMap(), "driver.Shared": driver.Shared} {
			out, err := render(m, e, c.Embed)
			if err == nil || out != "" {
				return report.Failf("undefined-operator-rendered", "a %v node (pre-order index %d) of the tree was replaced by the zero Expression, whose operator has no registered function; Render with %s returned %q, err %v (tree now %#v)", was, c.Op%len(all), name, out, err, e), nodes, distinctOps
			}
		}
		if out, err := driver.NewPostgresDriver().Render(e); err == nil || out != "" {
			return report.Failf("undefined-operator-rendered", "a %v node of the tree was replaced by the zero Expression; the stock driver's Render returned %q, err %v (tree now %#v)", was, out, err, e), nodes, distinctOps
		}
	case "nil-map", "empty-map":
		m := map[expr.Operator]driver.RenderFN{}
		if c.Mode == "nil-map" {
			m = nil
		}
		out, err := render(m, e, c.Embed)
		if err == nil || out != "" {
			return report.Failf("no-functions-no-error", "a driver with %s rendered %#v as %q (err %v); with no function registered Render must fail", map[bool]string{true: "a nil function map", false: "an empty function map"}[m == nil], e, out, err), nodes, distinctOps
		}
		po, _, perr := driver.Base{RenderFNs: m}.RenderParam(e)
		if perr == nil && e.Op != expr.Like && e.Op != expr.Range {
			return report.Failf("no-functions-no-error", "RenderParam with no function registered rendered %#v as %q", e, po), nodes, distinctOps
		}
	case "stock":
		if per[expr.Boost]+per[expr.Fuzzy] == 0 || c.Built >= 0 {
			return nil, nodes, distinctOps
		}
		text := gen.Text(c.Tree, gen.Opts{})
		if s, err := lucene.ToPostgres(text); err == nil {
			return report.Failf("stock-fuzzy-boost", "ToPostgres(%q) succeeded (%q) although the query contains ~ or ^", text, s), nodes, distinctOps
		}
		if s, _, err := lucene.ToParameterizedPostgres(text); err == nil {
			return report.Failf("stock-fuzzy-boost", "ToParameterizedPostgres(%q) succeeded (%q) although the query contains ~ or ^", text, s), nodes, distinctOps
		}
	}
	return nil, nodes, distinctOps
}

func init() {
	replayers["C15"] = func(raw json.RawMessage) *report.Failure {
		var c FoldCase
		if err := json.Unmarshal(raw, &c); err != nil {
			return report.Failf("replay", "bad case: %v", err)
		}
		f, _, _ := checkC15(c)
		return f
	}
}

func TestC15(t *testing.T) {
	cfg := report.Load()
	st := report.New("C15", cfg)
	defer st.Finish(t)
	st.Rule("trees: rapid query trees over every operator (incl. fuzzy/boost, lists, ranges, field groups) turned into expressions through the constructors, plus hand-built trees that pass Validate; render-function maps: a tracing map (every operator's function tags its output with a unique call id and logs its arguments), Shared with exactly one operator overridden, the tracing map / Shared with one operator removed or failing - for every operator. Oracle: the tracing fold lays the call log over the tree (one call per node, operator by operator, children before parents, each argument is the child's recorded result in at most one pair of parentheses, containers hold their children's results in order, Render returns the root call's result); an override changes the output only at nodes of that operator; a missing function gives an error and an empty string iff the tree contains that operator; a tree in which any one node was replaced by the zero Expression (operator Undefined, registered nowhere) gives an error and an empty string under every map; with leaf functions that all return the same text every LIST function still receives one rendered item per list value; ToPostgres / ToParameterizedPostgres fail on every query with ~ or ^. Non-trivial = tree with >= 3 nodes and >= 2 distinct operators under a map that differs from Shared; distinct by (tree shape, mode, operator).")
	st.Assume("sibling order and exact parenthesis placement are not prescribed", "RenderParam's use of the map is only checked through the fuzzy/boost corollary")
	regress(t, st, "C15")
	_ = activeFindings(st, "C15")

	run := func(stream string, c FoldCase) bool {
		st.Eval()
		f, nodes, dops := checkC15(c)
		if f != nil {
			if c.Tree != nil {
				c.Text = gen.Text(c.Tree, gen.Opts{})
			}
			st.Violate(stream, c, f)
			return false
		}
		st.Class(c.Mode)
		if nodes >= 3 && dops >= 2 {
			shape := fmt.Sprintf("built%d", c.Built)
			if c.Tree != nil {
				shape = c.Tree.Shape()
			}
			st.NonTrivial(fmt.Sprintf("%s/%s/%d/%v", shape, c.Mode, c.Op, c.Embed))
			st.Sample(c.Mode, map[string]any{"tree": shape, "mode": c.Mode, "op": expr.Operator(c.Op).String()})
		}
		return true
	}
	modes := []string{"trace", "override", "remove-traced", "remove-shared", "fail", "stock", "blank", "nil-map", "empty-map", "undefined-node", "constant-leaves"}

	// exhaustive: hand-built trees and a fixed set of small generated trees x every mode x every operator
	leaves := gen.LeafAlphabet(true)
	st.Stream("all-maps", true, fmt.Sprintf("%d hand-built trees and all generated trees of operator depth <= 1 over %d leaves x {trace, override, remove-traced, remove-shared, fail, stock} x every operator x {Base, embedding type}", len(builtTrees), len(leaves)))
	var cases []FoldCase
	for i := range builtTrees {
		cases = append(cases, FoldCase{Built: i})
	}
	gen.EnumTrees(leaves, 1, gen.EnumOps{Suffix: true, Group: true}, 0, 1, func(n *gen.Node) {
		cases = append(cases, FoldCase{Tree: n, Built: -1})
	})
	idx := 0
	for _, base := range cases {
		for _, mode := range modes {
			ops := allOps
			if mode == "trace" || mode == "stock" || mode == "nil-map" || mode == "empty-map" || mode == "constant-leaves" {
				ops = allOps[:1]
			}
			for _, op := range ops {
				for _, embed := range []bool{false, true} {
					if idx%cfg.NShards == cfg.Shard {
						c := base
						c.Mode, c.Op, c.Embed = mode, int(op), embed
						run("all-maps", c)
					}
					idx++
				}
			}
		}
	}

	tcfg := gen.ParseCfg
	tcfg.Vals.Hostile = true
	st.Rapid(t, "random-trees", cfg.N(40000, 2000000), func(rt *rapid.T) {
		tree := gen.GenTree(tcfg).Draw(rt, "tree")
		c := FoldCase{Tree: tree, Built: -1, Mode: rapid.SampledFrom(modes).Draw(rt, "mode"), Op: int(rapid.SampledFrom(allOps).Draw(rt, "op")), Embed: rapid.Bool().Draw(rt, "embed"), JSON: rapid.IntRange(0, 3).Draw(rt, "json") == 0}
		// bias the operator towards ones that occur in the tree
		if rapid.Bool().Draw(rt, "present") {
			per := map[expr.Operator]int{}
			countNodes(c.expr(), per)
			var present []int
			for op := range per {
				present = append(present, int(op))
			}
			sort.Ints(present)
			c.Op = rapid.SampledFrom(present).Draw(rt, "presentop")
		}
		if !run("random-trees", c) {
			rt.Fatalf("violation")
		}
	})

	// driver isolation (model-based): drivers are created and customised in a random
	// history; a model keeps a private copy of what each driver's map should hold.
	// After every step: each driver renders like its model, the stock renderers still
	// refuse ~ and ^, and driver.Shared is what it was at the start.
	sharedSnapshot := map[expr.Operator]driver.RenderFN{}
	for k, v := range driver.Shared {
		sharedSnapshot[k] = v
	}
	defer func() { // never leak a polluted Shared into later checks of this process
		for k := range driver.Shared {
			if _, ok := sharedSnapshot[k]; !ok {
				delete(driver.Shared, k)
			}
		}
		for k, v := range sharedSnapshot {
			driver.Shared[k] = v
		}
	}()
	probes := []*expr.Expression{expr.AND(expr.FUZZY(expr.Eq("a", "b"), 2), expr.Eq("c", "d")), expr.BOOST(expr.Lit("x"), 2), expr.OR(expr.Eq("a", 1), expr.NOT(expr.LIKE("b", expr.WILD("c*")))), expr.MUSTNOT(expr.Rang("r", 1, 5, true))}
	baseline := make([]string, len(probes))
	for i, p := range probes {
		s, err := driver.Base{RenderFNs: sharedSnapshot}.Render(p)
		baseline[i] = fmt.Sprintf("%s|%v", s, err)
	}
	st.Rapid(t, "driver-isolation-machine", cfg.N(1500, 60000), func(rt *rapid.T) {
		type drv struct {
			d     driver.PostgresDriver
			model map[expr.Operator]driver.RenderFN
		}
		var drivers []*drv
		history := []string{}
		fail := func(sub, format string, a ...any) {
			f := report.Failf(sub, format+"  (history: %v)", append(a, history)...)
			st.Violate("driver-isolation-machine", map[string]any{"history": history}, f)
			rt.Fatalf("violation")
		}
		newDriver := func() {
			d := driver.NewPostgresDriver()
			m := map[expr.Operator]driver.RenderFN{}
			for k, v := range d.RenderFNs {
				m[k] = v
			}
			drivers = append(drivers, &drv{d, m})
		}
		newDriver()
		st.Eval()
		rt.Repeat(map[string]func(*rapid.T){
			"new": func(t *rapid.T) {
				history = append(history, "new")
				newDriver()
			},
			"customise": func(t *rapid.T) {
				i := rapid.IntRange(0, len(drivers)-1).Draw(t, "drv")
				op := rapid.SampledFrom(allOps).Draw(t, "op")
				tag := fmt.Sprintf("<%d:%v>", len(history), op)
				fn := func(l, r string) (string, error) { return tag + l + "|" + r, nil }
				history = append(history, fmt.Sprintf("drivers[%d].RenderFNs[%v]=custom", i, op))
				drivers[i].d.RenderFNs[op] = fn
				drivers[i].model[op] = fn
			},
			"remove": func(t *rapid.T) {
				i := rapid.IntRange(0, len(drivers)-1).Draw(t, "drv")
				op := rapid.SampledFrom(allOps).Draw(t, "op")
				history = append(history, fmt.Sprintf("delete(drivers[%d].RenderFNs, %v)", i, op))
				delete(drivers[i].d.RenderFNs, op)
				delete(drivers[i].model, op)
			},
			"": func(t *rapid.T) {
				for i, dv := range drivers {
					for _, p := range probes {
						got, gerr := dv.d.Render(p)
						want, werr := driver.Base{RenderFNs: dv.model}.Render(p)
						if got != want || (gerr == nil) != (werr == nil) {
							fail("driver-aliasing", "drivers[%d] renders %#v as %q (%v) but its own function map gives %q (%v): another driver's customisation leaked into it", i, p, got, gerr, want, werr)
						}
					}
				}
				for _, q := range []string{"a:b~2 AND c:d", "x^2", "NOT (a:b c~)"} {
					if s, err := lucene.ToPostgres(q); err == nil {
						fail("stock-fuzzy-boost", "after customising private drivers, ToPostgres(%q) succeeds: %q", q, s)
					}
					if s, _, err := lucene.ToParameterizedPostgres(q); err == nil {
						fail("stock-fuzzy-boost", "after customising private drivers, ToParameterizedPostgres(%q) succeeds: %q", q, s)
					}
				}
				if len(driver.Shared) != len(sharedSnapshot) {
					fail("shared-map-changed", "driver.Shared now has %d entries, it had %d", len(driver.Shared), len(sharedSnapshot))
				}
				for i, p := range probes {
					s, err := driver.Base{RenderFNs: driver.Shared}.Render(p)
					if got := fmt.Sprintf("%s|%v", s, err); got != baseline[i] {
						fail("shared-map-changed", "rendering %#v with driver.Shared now gives %q, at the start %q", p, got, baseline[i])
					}
				}
			},
		})
		st.Class("isolation-history")
		st.NonTrivial(fmt.Sprint(history))
	})
}
