package core

import (
	"encoding/json"
	"fmt"
	"reflect"
	"strings"
	"testing"

	"github.com/grindlemire/go-lucene/pkg/lucene/expr"
	"github.com/grindlemire/go-lucene/verif/gen"
	"github.com/grindlemire/go-lucene/verif/report"
	"pgregory.net/rapid"
)

func isDFScope(e *expr.Expression, df string) (*expr.Expression, bool) {
	if e == nil || (e.Op != expr.Equals && e.Op != expr.Like) {
		return nil, false
	}
	l, ok := e.Left.(*expr.Expression)
	if !ok || l.Op != expr.Literal {
		return nil, false
	}
	c, ok := l.Left.(expr.Column)
	if !ok || string(c) != df {
		return nil, false
	}
	r, ok := e.Right.(*expr.Expression)
	return r, ok
}

// eraseDF returns a copy of the tree with every df:x scoping replaced by x.
func eraseDF(x any, df string) any {
	switch v := x.(type) {
	case *expr.Expression:
		if v == nil {
			return v
		}
		if inner, ok := isDFScope(v, df); ok {
			return eraseDF(inner, df)
		}
		c := *v
		c.Left = eraseDF(v.Left, df)
		c.Right = eraseDF(v.Right, df)
		return &c
	case []*expr.Expression:
		out := make([]*expr.Expression, len(v))
		for i, e := range v {
			out[i], _ = eraseDF(e, df).(*expr.Expression)
		}
		return out
	case *expr.RangeBoundary:
		if v == nil {
			return v
		}
		c := *v
		c.Min = eraseDF(v.Min, df)
		c.Max = eraseDF(v.Max, df)
		return &c
	}
	return x
}

func isLeafExpr(e *expr.Expression) bool {
	return e != nil && (e.Op == expr.Literal || e.Op == expr.Wild || e.Op == expr.Regexp)
}

// bareTerm finds a term left standing alone in operand position.
func bareTerm(e *expr.Expression) *expr.Expression {
	if e == nil {
		return nil
	}
	if isLeafExpr(e) {
		return e
	}
	switch e.Op {
	case expr.And, expr.Or:
		for _, s := range []any{e.Left, e.Right} {
			if c, ok := s.(*expr.Expression); ok {
				if b := bareTerm(c); b != nil {
					return b
				}
			}
		}
	case expr.Not, expr.Must, expr.MustNot, expr.Boost, expr.Fuzzy:
		if c, ok := e.Left.(*expr.Expression); ok {
			return bareTerm(c)
		}
	}
	return nil
}

// rescoped finds the default-field column inside the value side of another
// field-scoped node.
func rescoped(x any, df string, inValue bool) bool {
	switch v := x.(type) {
	case *expr.Expression:
		if v == nil {
			return false
		}
		if c, ok := v.Left.(expr.Column); ok && string(c) == df && inValue {
			return true
		}
		switch v.Op {
		case expr.Equals, expr.Like, expr.Greater, expr.Less, expr.GreaterEq, expr.LessEq, expr.Range, expr.In:
			if _, own := isDFScope(v, df); own && !inValue {
				return rescoped(v.Right, df, false) // df:x itself; x is a leaf
			}
			return rescoped(v.Left, df, inValue) || rescoped(v.Right, df, true)
		}
		return rescoped(v.Left, df, inValue) || rescoped(v.Right, df, inValue)
	case []*expr.Expression:
		for _, e := range v {
			if rescoped(e, df, inValue) {
				return true
			}
		}
	case *expr.RangeBoundary:
		if v != nil {
			return rescoped(v.Min, df, true) || rescoped(v.Max, df, true)
		}
	}
	return false
}

func checkC11(c TokCase) (f *report.Failure, accepted bool) {
	text := c.text()
	defer func() {
		if r := recover(); r != nil {
			f, accepted = nil, false
		}
	}()
	plain, perr := parseWith(text, "")
	scoped, serr := parseWith(text, c.DF)
	if (perr == nil) != (serr == nil) {
		return report.Failf("acceptance-differs", "Parse(%q): without default field err=%v, with default field %q err=%v", text, perr, c.DF, serr), false
	}
	if perr != nil {
		return nil, false
	}
	if er, _ := eraseDF(scoped, c.DF).(*expr.Expression); !reflect.DeepEqual(er, plain) {
		return report.Failf("erase-differs", "Parse(%q, df=%q) = %#v; erasing the %q scoping gives %#v, but without the option the tree is %#v", text, c.DF, scoped, c.DF, er, plain), true
	}
	if b := bareTerm(scoped); b != nil {
		return report.Failf("bare-term-remains", "Parse(%q, df=%q) = %#v still has the bare term %#v in operand position", text, c.DF, scoped, b), true
	}
	if rescoped(scoped, c.DF, false) {
		return report.Failf("rescoped", "Parse(%q, df=%q) = %#v scopes a term inside another field's value to the default field", text, c.DF, scoped), true
	}
	return nil, true
}

func init() {
	replayers["C11"] = func(raw json.RawMessage) *report.Failure {
		var c TokCase
		if err := json.Unmarshal(raw, &c); err != nil {
			return report.Failf("replay", "bad case: %v", err)
		}
		f, _ := checkC11(c)
		return f
	}
}

var c11Fields = []string{" dflt", "dflt ", "\tdflt\n", " ", "dflt", "my dflt", `d"q`, "ü", strings.Repeat("long_field_name_", 5), "AND", "5x", "dflt", "dflt"}

// c11Context classifies where bare terms stand (for the histogram / non-triviality).
func c11Context(toks []gen.Tok) (bare, fielded, unary bool) {
	for i, t := range toks {
		switch {
		case t.Class == gen.TTerm:
			prevColon := i > 0 && toks[i-1].Class == gen.TSym && strings.Contains(":=><[{", toks[i-1].Sym)
			nextColon := i+1 < len(toks) && toks[i+1].Class == gen.TSym && (toks[i+1].Sym == ":" || toks[i+1].Sym == "=")
			if nextColon {
				fielded = true
			} else if !prevColon {
				bare = true
			}
		case t.Class == gen.TSym && strings.Contains("+-~^", t.Sym), t.Class == gen.TKw && t.Sym == "NOT":
			unary = true
		}
	}
	return
}

func TestC11(t *testing.T) {
	cfg := report.Load()
	st := report.New("C11", cfg)
	defer st.Finish(t)
	st.Rule("token sequences (exhaustive over full / reduced / focus alphabets up to stated lengths; printed random trees; mutated prints) x default-field names {dflt, 'my dflt', d\"q, ü, 80-byte name, AND, 5}, none of which occurs as a field in the generated query. Oracle: metamorphic pair Parse(q) / Parse(q, WithDefaultField(f)): equal acceptance; erasing every f: scoping from the second tree gives exactly the first; no bare term remains in operand position (walk through AND/OR/NOT/+/-/~/^ only); f never appears inside the value, bound or list of another field-scoped node. Non-trivial = accepted query with >= 1 bare term and (>= 1 fielded term or unary operator); distinct by (token-class sequence, f).")
	st.Assume("f is never used as an explicit field in q (the property excludes that case)")
	regress(t, st, "C11")
	_ = activeFindings(st, "C11")

	run := func(stream string, c TokCase) bool {
		st.Eval()
		f, accepted := checkC11(c)
		if f != nil {
			if c.Raw == nil {
				c.Toks = gen.MinimizeToks(c.Toks, func(t []gen.Tok) bool {
					ff, _ := checkC11(TokCase{Toks: t, DF: c.DF})
					return ff != nil && ff.Sub == f.Sub
				})
				f, _ = checkC11(c)
			}
			c.Text = c.text()
			st.Violate(stream, c, f)
			return false
		}
		if accepted {
			bare, fielded, unary := c11Context(c.Toks)
			st.Class(fmt.Sprintf("accepted bare=%v fielded=%v unary=%v", bare, fielded, unary))
			if bare && (fielded || unary) {
				st.NonTrivial(c.DF + "\x00" + classSeq(c.Toks))
				st.Sample(stream, c.text()+"  df="+c.DF)
			}
		} else {
			st.Class("rejected")
		}
		return true
	}
	fullLen, redLen, focusLen := 3, 4, 5
	if cfg.Thorough() {
		fullLen, redLen, focusLen = 4, 5, 7
	}
	enum := func(name string, alpha []gen.Tok, maxLen int) {
		st.Stream(name, true, fmt.Sprintf("every token sequence of length 1..%d over %d tokens, default field dflt", maxLen, len(alpha)))
		gen.EnumSeqs(alpha, maxLen, cfg.Shard, cfg.NShards, func(seq []gen.Tok) {
			run(name, TokCase{Toks: append([]gen.Tok(nil), seq...), DF: "dflt"})
		})
	}
	enum("enum-full", gen.FullAlphabet(), fullLen)
	enum("enum-reduced", gen.ReducedAlphabet(), redLen)
	enum("enum-bool", gen.BoolAlphabet(), focusLen+1)
	enum("enum-unary", gen.UnaryAlphabet(), focusLen+map[bool]int{false: 0, true: 1}[cfg.Thorough()])

	// leaf forms: every unusual way to write one term (ill-formed and odd regexps,
	// wildcard corner cases, quoted look-alikes, number look-alikes, keyword
	// look-alikes, a range without a field) in every operand position of a few small
	// queries. The option must not change which of them are accepted, whatever the
	// term's text would mean to a regexp engine or a number parser.
	leafForms := []string{"/[a/", "/a(b/", "/*a/", "/a{2,1}/", "/(/", `/\\/`, "/a b/", "//", "/+/", `/\//`, "*", "?", "**", "a*?", `\*`, `a\?b*`, `""`, `"*"`, `"/x/"`, `"a b"`, `"AND"`, "'s t'",
		"NaN", "Inf", "-Inf", "1e400", "-0", "0x10", "010", ".5", "5.", "-5", "1e5", "to", "and", "nOt", "T", "null", "true", "[1 TO 5]", "{a TO b}", "[* TO *]", "x\\ y", "é", "a-b", "a.b", "-a", "2024-01-01"}
	leafCtx := []string{"%s", "a AND %s", "%s OR a", "NOT %s", "+%s b", "-%s", "(%s OR z)^2", "%s~2", "%s^3 a", "f:%s", "f:%s %s", "%s %s", "(%s)", "f:(%s OR b) %s", "a:b %s c:d", "f:[1 TO 5] %s", "NOT (%s AND f:%s)", "f:>%s", "%s f:>=%s"}
	st.Stream("leaf-forms", true, fmt.Sprintf("%d ways to write a term x %d small queries with the term in operand and in value position x default fields {dflt, my dflt}", len(leafForms), len(leafCtx)))
	idx := 0
	for _, lf := range leafForms {
		for _, cx := range leafCtx {
			q := strings.ReplaceAll(cx, "%s", lf)
			for _, df := range []string{"dflt", "my dflt"} {
				if idx%cfg.NShards == cfg.Shard {
					run("leaf-forms", TokCase{Raw: []byte(q), DF: df})
				}
				idx++
			}
		}
	}

	// size sweep: the same shape at every size (limits, thresholds, off-by-one)
	maxN := 640
	if cfg.Thorough() {
		maxN = 1200
	}
	st.Stream("size-sweep", true, fmt.Sprintf("n = 1..%d juxtaposed bare terms, n ORed bare terms, a bare term under n nested NOT( ), n nested groups", maxN))
	wa, kor, knot := gen.Term(gen.Word("w")), gen.Kw("OR", "OR"), gen.Kw("NOT", "NOT")
	for n := 1; n <= maxN; n++ {
		if n%cfg.NShards != cfg.Shard {
			continue
		}
		var jux, ors, nots, grp []gen.Tok
		for i := 0; i < n; i++ {
			jux = append(jux, wa)
			if i > 0 {
				ors = append(ors, kor)
			}
			ors = append(ors, wa)
			nots = append(nots, knot, gen.Sym("("))
			grp = append(grp, gen.Sym("("))
		}
		nots, grp = append(nots, wa), append(grp, wa)
		for i := 0; i < n; i++ {
			nots, grp = append(nots, gen.Sym(")")), append(grp, gen.Sym(")"))
		}
		for _, tk := range [][]gen.Tok{jux, ors, nots, grp} {
			run("size-sweep", TokCase{Toks: tk, DF: "dflt"})
		}
	}

	pool := gen.FullAlphabet()
	st.Rapid(t, "printed-and-mutated", cfg.N(40000, 3000000), func(rt *rapid.T) {
		tree := gen.GenTree(gen.ParseCfg).Draw(rt, "tree")
		o := gen.Opts{Full: rapid.IntRange(0, 5).Draw(rt, "full") == 0}
		if rapid.Bool().Draw(rt, "juxta") {
			o.Juxta = map[int]bool{}
			for _, g := range andGaps(tree, o) {
				if g.eligible && rapid.Bool().Draw(rt, "j") {
					o.Juxta[g.id] = true
				}
			}
		}
		toks := gen.Print(tree, o).Toks
		switch rapid.IntRange(0, 4).Draw(rt, "mutate") {
		case 0:
			toks = mutateToks(rt, toks, pool)
		case 1:
			toks = gen.NestInTermPosition(rt, toks)
		}
		c := TokCase{Toks: toks, DF: rapid.SampledFrom(c11Fields).Draw(rt, "df")}
		if !run("printed-and-mutated", c) {
			rt.Fatalf("violation")
		}
	})
}
