package core

import (
	"encoding/json"
	"fmt"
	"os"
	"strings"
	"sync/atomic"
	"testing"
	"time"

	lucene "github.com/grindlemire/go-lucene"
	"github.com/grindlemire/go-lucene/pkg/lucene/expr"
	"github.com/grindlemire/go-lucene/verif/gen"
	"github.com/grindlemire/go-lucene/verif/report"
	"pgregory.net/rapid"
)

// InCase is an input string with a default-field option; the unit of C01 and C10.
type InCase struct {
	Input  []byte `json:"input"`
	Quoted string `json:"quoted"`
	DF     string `json:"df"`
	Ntok   int    `json:"ntok,omitempty"` // harness-side token count when known (0: unknown)
}

func mkIn(s, df string, ntok int) InCase {
	q := s
	if len(q) > 200 {
		q = q[:200] + "..."
	}
	return InCase{Input: []byte(s), Quoted: fmt.Sprintf("%q", q), DF: df, Ntok: ntok}
}

// histCalls counts parseWith calls. Every other call (starting with the first, so
// that a replayed case is preceded by the same call) is preceded by an unrelated
// Parse made with the opposite default-field choice: the properties quantify over
// inputs, not over call histories, so what Parse returns for s must not depend on
// what was parsed before it (a recycled parser that remembers the previous call's
// default field, interned leaves that an earlier query rewrote ...). "zzhist" is a
// field name no generator uses; the unrelated query has an integer field name and
// the same integer as a value.
var histCalls atomic.Uint64

func disturbHistory(df string) {
	defer func() { _ = recover() }()
	if df == "" {
		_, _ = lucene.Parse(`hq AND 7:hv OR hw:[0 TO 7] "h p"`, lucene.WithDefaultField("zzhist"))
	} else {
		_, _ = lucene.Parse(`hq AND 7:hv OR hw:[0 TO 7] "h p"`)
	}
}

func parseWith(s, df string) (*expr.Expression, error) {
	if histCalls.Add(1)%2 == 1 {
		disturbHistory(df)
	}
	if df == "" {
		return lucene.Parse(s)
	}
	return lucene.Parse(s, lucene.WithDefaultField(df))
}

func toPG(s, df string) (string, error) {
	if df == "" {
		return lucene.ToPostgres(s)
	}
	return lucene.ToPostgres(s, lucene.WithDefaultField(df))
}

func toPGParam(s, df string) (string, []any, error) {
	if df == "" {
		return lucene.ToParameterizedPostgres(s)
	}
	return lucene.ToParameterizedPostgres(s, lucene.WithDefaultField(df))
}

// watchdog: the current case and when it started; a background goroutine turns a
// case that exceeds its cap into a captured violation (small inputs) or an
// inconclusive exit (large inputs).
type watch struct {
	cur   atomic.Pointer[InCase]
	start atomic.Int64
	st    *report.Stats
	stop  chan struct{}
}

func startWatch(st *report.Stats) *watch {
	w := &watch{st: st, stop: make(chan struct{})}
	go func() {
		tk := time.NewTicker(500 * time.Millisecond)
		defer tk.Stop()
		for {
			select {
			case <-w.stop:
				return
			case <-tk.C:
			}
			c := w.cur.Load()
			if c == nil {
				continue
			}
			el := time.Since(time.Unix(0, w.start.Load()))
			small := len(c.Input) <= 512
			if small && el > 20*time.Second {
				st.Violate("watchdog", *c, report.Failf("hang", "a call did not return within %v on a %d-byte input (no polynomial of plausible degree explains that)", el.Round(time.Second), len(c.Input)))
				st.Flush()
				os.Exit(1)
			}
			if !small && el > 240*time.Second {
				fmt.Printf("INCONCLUSIVE property=%s a %d-byte input needed more than %v\n", st.Property, len(c.Input), el.Round(time.Second))
				st.Flush()
				os.Exit(2)
			}
		}
	}()
	return w
}

func (w *watch) begin(c *InCase) { w.start.Store(time.Now().UnixNano()); w.cur.Store(c) }
func (w *watch) end()            { w.cur.Store(nil) }
func (w *watch) close()          { close(w.stop) }

// inputStreams drives fn over the shared input population of C01 and C10.
type streamCfg struct {
	fullLen, reducedLen, focusLen int
	trees, strings                int
	dfs                           []string
}

func inputStreams(t *testing.T, st *report.Stats, sc streamCfg, fn func(stream string, c InCase) bool) {
	cfg := st.Cfg()
	enum := func(name string, alpha []gen.Tok, maxLen int) {
		if maxLen <= 0 {
			return
		}
		var names []string
		for _, a := range alpha {
			names = append(names, a.Text)
		}
		st.Stream(name, true, fmt.Sprintf("every token sequence of length 1..%d over %d tokens {%s}, joined by single spaces, x default field in %q", maxLen, len(alpha), strings.Join(names, " "), sc.dfs))
		gen.EnumSeqs(alpha, maxLen, cfg.Shard, cfg.NShards, func(seq []gen.Tok) {
			s := gen.JoinSpace(seq)
			for _, df := range sc.dfs {
				fn(name, mkIn(s, df, len(seq)))
			}
		})
	}
	enum("enum-full", gen.FullAlphabet(), sc.fullLen)
	enum("enum-reduced", gen.ReducedAlphabet(), sc.reducedLen)
	enum("enum-bool", gen.BoolAlphabet(), sc.focusLen)
	enum("enum-range", gen.RangeAlphabet(), sc.focusLen)
	enum("enum-unary", gen.UnaryAlphabet(), sc.focusLen)
	enum("enum-cmp", gen.CmpAlphabet(), sc.focusLen)
	if sc.focusLen > 0 {
		st.Stream("enum-range-frame", true, "token sequences around one range (gen.RangeFrames), joined by single spaces, x default field")
		gen.RangeFrames(cfg.Shard, cfg.NShards, func(seq []gen.Tok) {
			s := gen.JoinSpace(seq)
			for _, df := range sc.dfs {
				fn("enum-range-frame", mkIn(s, df, len(seq)))
			}
		})
	}

	dfGen := rapid.SampledFrom([]string{"", "", "dflt", "my field", `d"q`, "ü", "AND", "5"})
	st.Rapid(t, "printed-trees", sc.trees, func(rt *rapid.T) {
		tcfg := gen.ParseCfg
		tcfg.Vals.Hostile = rapid.Bool().Draw(rt, "hostile")
		tree := gen.GenTree(tcfg).Draw(rt, "tree")
		o := gen.Opts{Fill: gen.GenFill().Draw(rt, "fill"), Full: rapid.IntRange(0, 4).Draw(rt, "full") == 0}
		if rapid.Bool().Draw(rt, "juxta") {
			o.Juxta = map[int]bool{}
			tree.Walk(func(id int, n *gen.Node) {
				if n.K == gen.NAnd && id%2 == 0 {
					o.Juxta[id] = true
				}
			})
		}
		pr := gen.Print(tree, o)
		if !fn("printed-trees", mkIn(gen.Join(pr.Toks, o), dfGen.Draw(rt, "df"), len(pr.Toks))) {
			rt.Fatalf("violation")
		}
	})
	st.Rapid(t, "single-term", sc.trees/4+1, func(rt *rapid.T) {
		// the whole query is one term: a quoted phrase or an escaped word holding
		// arbitrary bytes, optionally under one prefix / suffix operator or a field
		var b []byte
		if rapid.Bool().Draw(rt, "raw") {
			b = rapid.SliceOfN(rapid.Byte(), 0, 12).Draw(rt, "bytes")
		} else {
			b = []byte(gen.GenHostileString(false).Draw(rt, "hs"))
		}
		var term string
		if rapid.Bool().Draw(rt, "quoted") {
			term = `"` + strings.ReplaceAll(string(b), `"`, "") + `"`
		} else {
			for _, c := range b {
				term += "\\" + string([]byte{c})
			}
			if term == "" {
				term = "w"
			}
		}
		q := rapid.SampledFrom([]string{"%s", "%s", "f:%s", "NOT %s", "+%s", "-%s", "%s~", "%s^2", "(%s)", "f:[%s TO %s]", "f:(%s OR x)"}).Draw(rt, "shape")
		q = strings.ReplaceAll(q, "%s", term)
		if !fn("single-term", mkIn(q, dfGen.Draw(rt, "df"), 1)) {
			rt.Fatalf("violation")
		}
	})
	st.Rapid(t, "nested-in-term-position", sc.trees/2+1, func(rt *rapid.T) {
		tree := gen.GenTree(gen.ParseCfg).Draw(rt, "tree")
		toks := gen.NestInTermPosition(rt, gen.Print(tree, gen.Opts{}).Toks)
		if !fn("nested-in-term-position", mkIn(gen.JoinSpace(toks), dfGen.Draw(rt, "df"), len(toks))) {
			rt.Fatalf("violation")
		}
	})
	all := append(gen.FullAlphabet(), gen.Term(gen.Word("NaN")), gen.Term(gen.Word("Inf")), gen.RawTerm("0x1p-2"), gen.RawTerm(`b\*`), gen.RawTerm(`a\\b`), gen.RawTerm("'"), gen.RawTerm(`"`), gen.RawTerm("/"), gen.RawTerm(","), gen.RawTerm("\x00"), gen.RawTerm("\xff"), gen.RawTerm("é"), gen.RawTerm("-٣"), gen.RawTerm("-３"), gen.RawTerm("٣"), gen.RawTerm("010"), gen.RawTerm("0x1F"))
	st.Rapid(t, "random-strings", sc.strings, func(rt *rapid.T) {
		var s string
		switch rapid.IntRange(0, 3).Draw(rt, "mode") {
		case 0:
			s = string(rapid.SliceOfN(rapid.Byte(), 0, 40).Draw(rt, "bytes"))
		case 1:
			n := rapid.IntRange(1, 8).Draw(rt, "n")
			for i := 0; i < n; i++ {
				s += rapid.SampledFrom(gen.HostilePool).Draw(rt, "frag")
				if rapid.Bool().Draw(rt, "sp") {
					s += " "
				}
			}
		default: // token soup with random glue
			n := rapid.IntRange(1, 30).Draw(rt, "n")
			for i := 0; i < n; i++ {
				s += rapid.SampledFrom(all).Draw(rt, "tok").Text
				s += rapid.SampledFrom([]string{" ", " ", "", "\t", "\n"}).Draw(rt, "glue")
			}
		}
		if !fn("random-strings", mkIn(s, dfGen.Draw(rt, "df"), 0)) {
			rt.Fatalf("violation")
		}
	})
}

func decodeIn(raw json.RawMessage) (InCase, *report.Failure) {
	var c InCase
	if err := json.Unmarshal(raw, &c); err != nil {
		return c, report.Failf("replay", "bad case: %v", err)
	}
	return c, nil
}
