package core

import (
	"testing"

	"github.com/grindlemire/go-lucene/verif/report"
)

var replayers = report.Replayers

// TestReplay re-executes a stored violation without the PBT library.
func TestReplay(t *testing.T) { report.RunReplay(t) }

func regress(t *testing.T, st *report.Stats, property string) { report.Regress(st, property) }

func activeFindings(st *report.Stats, property string) map[string]bool {
	return report.ActiveFindings(st, property)
}
