package core

import (
	"encoding/json"
	"fmt"
	"os"
	"testing"

	"github.com/grindlemire/go-lucene/verif/report"
)

// replayCase is implemented per property: decode the stored case and run the pure
// check on it.
var replayers = map[string]func(raw json.RawMessage) *report.Failure{}

// TestReplay re-executes a stored violation without the PBT library.
func TestReplay(t *testing.T) {
	cfg := report.Load()
	if cfg.Replay == "" {
		t.Skip("no VERIF_REPLAY")
	}
	raw, err := os.ReadFile(cfg.Replay)
	if err != nil {
		t.Fatalf("read replay: %v", err)
	}
	var v report.Violation
	if err := json.Unmarshal(raw, &v); err != nil {
		t.Fatalf("parse replay: %v", err)
	}
	fn, ok := replayers[v.Property]
	if !ok {
		t.Skipf("property %s is not in this package", v.Property)
	}
	if f := fn(v.Case); f != nil {
		fmt.Printf("REPLAY-FAILS property=%s sub=%s\n  why: %s\n", v.Property, f.Sub, f.Msg)
		t.Fail()
		return
	}
	fmt.Printf("REPLAY-PASSES property=%s\n", v.Property)
}

// regress replays every stored regression case of a property; any failure is a
// violation (a fixed finding that came back, or a past shrunk failure).
func regress(t *testing.T, st *report.Stats, property string) {
	dir := os.Getenv("VERIF_REGRESS")
	if dir == "" {
		dir = "/verif/regress"
	}
	ents, _ := os.ReadDir(dir)
	st.Stream("regress", false, "stored regression cases")
	for _, e := range ents {
		name := e.Name()
		if len(name) < 4 || name[:3] != property {
			continue
		}
		raw, err := os.ReadFile(dir + "/" + name)
		if err != nil {
			continue
		}
		var v report.Violation
		if json.Unmarshal(raw, &v) != nil || v.Property != property {
			continue
		}
		st.Eval()
		if f := replayers[property](v.Case); f != nil {
			var c any
			_ = json.Unmarshal(v.Case, &c)
			st.Violate("regress:"+name, c, f)
		}
	}
}

// activeFindings replays the witness of each open finding of the property; the
// ones whose witness still fails are active (announced, excluded), the others are
// switched off for this run.
func activeFindings(st *report.Stats, property string) map[string]bool {
	active := map[string]bool{}
	for _, f := range report.Open(report.LoadFindings(st.Cfg().Findings), property) {
		owner, ok := replayers[f.Property]
		if !ok || len(f.Witness) == 0 {
			// witness lives in another package's property: trust the listing
			active[f.Signature] = true
			continue
		}
		if fail := owner(f.Witness); fail != nil {
			active[f.Signature] = true
			if f.Property == property {
				st.Known(f.ID, f.WhatFails)
			}
		} else {
			st.Note("finding %s: witness no longer fails; its exclusion is off for this run", f.ID)
		}
	}
	return active
}
