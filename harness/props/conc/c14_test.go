// Package conc holds the concurrency check C14; the test binary is built with -race.
package conc

import (
	"encoding/json"
	"fmt"
	"math/rand"
	"os"
	"reflect"
	"runtime"
	"sort"
	"strings"
	"sync"
	"testing"
	"time"

	lucene "github.com/grindlemire/go-lucene"
	"github.com/grindlemire/go-lucene/pkg/driver"
	"github.com/grindlemire/go-lucene/pkg/lucene/expr"
	"github.com/grindlemire/go-lucene/verif/gen"
	"github.com/grindlemire/go-lucene/verif/report"
)

// StressCase pins everything about a stress round except the Go scheduler.
type StressCase struct {
	Seed       uint64 `json:"seed"`
	Corpus     int    `json:"corpus"`
	Goroutines int    `json:"goroutines"`
	Procs      int    `json:"procs"`
	OpsPerG    int    `json:"ops_per_goroutine"`
	Burst      bool   `json:"deep_burst"`
	Note       string `json:"note,omitempty"`
}

type input struct {
	query string
	df    string
	tree  *expr.Expression // shared value (nil if the query does not parse)
	copy  *expr.Expression // harness-made structural copy taken before any use
	snapG string           // %#v snapshot
	snapJ string           // JSON snapshot
}

var opNames = []string{"parse", "topostgres", "toparam", "render", "renderparam", "string", "gostring", "validate", "marshal", "unmarshal", "customrender"}

func deepCopy(x any) any {
	switch v := x.(type) {
	case *expr.Expression:
		if v == nil {
			return v
		}
		c := *v
		c.Left = deepCopy(v.Left)
		c.Right = deepCopy(v.Right)
		return &c
	case []*expr.Expression:
		out := make([]*expr.Expression, len(v))
		for i, e := range v {
			out[i], _ = deepCopy(e).(*expr.Expression)
		}
		return out
	case *expr.RangeBoundary:
		if v == nil {
			return v
		}
		c := *v
		c.Min = deepCopy(v.Min)
		c.Max = deepCopy(v.Max)
		return &c
	}
	return x
}

func opts(df string) []func() { return nil }

// sharedDF is one option value used by every goroutine (callers naturally build
// their options once).
var sharedDF = lucene.WithDefaultField("dflt")

func parse(q, df string) (*expr.Expression, error) {
	if df == "" {
		return lucene.Parse(q)
	}
	if df == "dflt" {
		return lucene.Parse(q, sharedDF)
	}
	return lucene.Parse(q, lucene.WithDefaultField(df))
}

type env struct {
	inputs []input
	custom driver.Base // shared custom driver value
}

func errS(err error) string {
	if err == nil {
		return "<nil>"
	}
	return err.Error()
}

// fmtParams prints a parameter list; a nil and an empty list are the same list.
func fmtParams(p []any) string {
	if len(p) == 0 {
		return "[]"
	}
	return fmt.Sprintf("%#v", p)
}

// doOp runs one operation and returns a canonical result string.
func (e *env) doOp(op int, in *input) (res string) {
	defer func() {
		if r := recover(); r != nil {
			res = fmt.Sprintf("PANIC %v", r)
		}
	}()
	switch opNames[op] {
	case "parse":
		t, err := parse(in.query, in.df)
		if err != nil {
			return "err " + err.Error()
		}
		return fmt.Sprintf("%#v", t)
	case "topostgres":
		var s string
		var err error
		if in.df == "" {
			s, err = lucene.ToPostgres(in.query)
		} else {
			s, err = lucene.ToPostgres(in.query, sharedDF)
		}
		return s + " | " + errS(err)
	case "toparam":
		var s string
		var p []any
		var err error
		if in.df == "" {
			s, p, err = lucene.ToParameterizedPostgres(in.query)
		} else {
			s, p, err = lucene.ToParameterizedPostgres(in.query, sharedDF)
		}
		return fmt.Sprintf("%s | %s | %s", s, fmtParams(p), errS(err))
	}
	if in.tree == nil {
		return "no-tree"
	}
	switch opNames[op] {
	case "render":
		s, err := driver.NewPostgresDriver().Render(in.tree)
		return s + " | " + errS(err)
	case "renderparam":
		s, p, err := driver.NewPostgresDriver().RenderParam(in.tree)
		return fmt.Sprintf("%s | %s | %s", s, fmtParams(p), errS(err))
	case "string":
		return in.tree.String()
	case "gostring":
		return fmt.Sprintf("%#v", in.tree)
	case "validate":
		return errS(expr.Validate(in.tree))
	case "marshal":
		b, err := json.Marshal(in.tree)
		return string(b) + " | " + errS(err)
	case "unmarshal":
		var d expr.Expression
		err := json.Unmarshal([]byte(in.snapJ), &d)
		if err != nil {
			return "err " + err.Error()
		}
		return fmt.Sprintf("%#v", &d)
	case "customrender":
		s, err := e.custom.Render(in.tree)
		return s + " | " + errS(err)
	}
	return "?"
}

func buildEnv(seed uint64, n int) *env {
	cfgT := gen.ParseCfg
	cfgT.Vals.Hostile = true
	e := &env{}
	fns := map[expr.Operator]driver.RenderFN{
		expr.Equals: func(l, r string) (string, error) { return l + " == " + r, nil },
		expr.Fuzzy:  func(l, r string) (string, error) { return "fuzzy(" + l + ")", nil },
		expr.Boost:  func(l, r string) (string, error) { return "boost(" + l + ")", nil },
	}
	for op, fn := range driver.Shared {
		if _, ok := fns[op]; !ok {
			fns[op] = fn
		}
	}
	e.custom = driver.Base{RenderFNs: fns}
	g := gen.GenTree(cfgT)
	repo := []string{`status:(new OR open OR held OR 4 OR 5.5 OR closed OR "on hold" OR void OR sent OR open) AND NOT b:[1 TO 5]`, "A:B AND C:D", "+foo OR (NOT(B))", "z:[* TO 10]", "(+a:b -c:d) OR (z:[1 TO *] NOT(foo))", `+bbq:"woo yay"`, "(a:b)^10", "a:foo~", "a:(foo OR baz OR bar)", "a:b*", "a:/b [c]/", "x:[10 TO *] AND NOT(y:[1 TO 5]", `title:"The Right Way" AND go`}
	for i := 0; i < n; i++ {
		var q string
		if i < len(repo) {
			q = repo[i]
		} else {
			q = gen.Text(g.Example(int(seed)*100003+i), gen.Opts{})
		}
		df := ""
		if i%3 == 1 {
			df = "dflt"
		}
		if i%5 == 2 && df == "" {
			// the same text is also in the corpus with a default field
			e.inputs = append(e.inputs, input{query: q, df: "dflt"})
		}
		in := input{query: q, df: df}
		if t, err := parse(q, df); err == nil {
			in.tree = t
			in.copy, _ = deepCopy(t).(*expr.Expression)
			in.snapG = fmt.Sprintf("%#v", t)
			b, _ := json.Marshal(t)
			in.snapJ = string(b)
		}
		e.inputs = append(e.inputs, in)
		// the same query once more as a tree that went through the JSON decoder
		// (leaf kinds re-inferred: EQUALS over a pattern, patterns in lists ...)
		if in.tree != nil && i%2 == 0 {
			var d expr.Expression
			if json.Unmarshal([]byte(in.snapJ), &d) == nil && expr.Validate(&d) == nil {
				e.inputs = append(e.inputs, withTree(q, df, &d))
			}
		}
	}
	// queries whose FIELD NAME is a number that other queries of the corpus use as a
	// value (the integer pool of the generators and the repository's inputs above): they
	// come last, so that the second sequential pass and the snapshots show whether
	// parsing them changed what the earlier queries mean
	for _, q := range []string{"lvl:7 AND n:[0 TO 5] OR m:(10 OR 2 OR 200) OR k:>=22 OR j:-1 OR r:[0.5 TO 1.5] OR s:5.5", "7:x", "5:[1 TO 2]", "10:>=10", "0:a AND 1:b", "2:(a OR b)", "-1:x", "200:x*", "22:/r/", "5.5:y", "1.5:[0.5 TO 1.5]", "level:7 AND retries:[3 TO 7] AND 7:z"} {
		in := input{query: q}
		if t, err := parse(q, ""); err == nil {
			in = withTree(q, "", t)
		}
		e.inputs = append(e.inputs, in)
	}
	// trees built through the constructors that the parser cannot produce
	for _, b := range []*expr.Expression{
		expr.Eq("name", "jo*n?"), expr.Eq("p", "/x+/"), expr.AND(expr.Eq("a", "b*"), expr.NOT(expr.Eq("c", expr.WILD("d?")))),
		expr.IN("a", expr.LIST(expr.Lit("foo"), expr.WILD("b*r"), expr.Lit(3))), expr.Rang("a", "x*", "*", true),
	} {
		if expr.Validate(deepCopy(b).(*expr.Expression)) == nil {
			e.inputs = append(e.inputs, withTree("\x00built", "", b))
		}
	}
	return e
}

func withTree(q, df string, t *expr.Expression) input {
	in := input{query: q, df: df, tree: t}
	in.copy, _ = deepCopy(t).(*expr.Expression)
	in.snapG = fmt.Sprintf("%#v", t)
	b, _ := json.Marshal(t)
	in.snapJ = string(b)
	return in
}

type opRec struct {
	g, op, in  int
	start, end int64
}

// stress runs one round; it returns a failure and the number of overlapping
// pairs of operations on the same shared input by different goroutines.
// prepared is a corpus with its sequential reference results.
type prepared struct {
	e   *env
	ref []string
}

var prepCache = map[[2]uint64]*prepared{}

// prepare builds the corpus and the sequential reference (forward twice, then in
// reverse order: a result must not depend on which call came before it); it is
// shared by the (goroutines, GOMAXPROCS) settings of one round.
func prepare(seed uint64, corpus int) (*prepared, *report.Failure) {
	if p, ok := prepCache[[2]uint64{seed, uint64(corpus)}]; ok {
		return p, nil
	}
	e := buildEnv(seed, corpus)
	nin, nop := len(e.inputs), len(opNames)
	ref := make([]string, nin*nop)
	for round := 0; round < 2; round++ {
		for i := range e.inputs {
			for op := 0; op < nop; op++ {
				r := e.doOp(op, &e.inputs[i])
				if round == 0 {
					ref[i*nop+op] = r
				} else if r != ref[i*nop+op] {
					return nil, report.Failf("nondeterministic", "sequential call %d of %s on %q (df=%q) returned %q, the first call %q", round+1, opNames[op], e.inputs[i].query, e.inputs[i].df, r, ref[i*nop+op])
				}
			}
		}
	}
	for i := nin - 1; i >= 0; i-- {
		for op := nop - 1; op >= 0; op-- {
			if r := e.doOp(op, &e.inputs[i]); r != ref[i*nop+op] {
				return nil, report.Failf("depends-on-call-history", "%s on %q (df=%q) returned %q when the calls were made in reverse order, %q in forward order", opNames[op], e.inputs[i].query, e.inputs[i].df, r, ref[i*nop+op])
			}
		}
	}
	if f := unchanged(e, "after the sequential runs"); f != nil {
		return nil, f
	}
	// the wrappers are Parse followed by Render / RenderParam of a driver: after all
	// the calls above they must still agree with that composition made from scratch
	for i := range e.inputs {
		in := &e.inputs[i]
		if strings.HasPrefix(in.query, "\x00") {
			continue
		}
		// outcome of the composition: SQL and parameters on success, "failed" otherwise
		// (no property fixes the text or type of an error, nor what accompanies it)
		outcome := func(sql string, params []any, err error) string {
			if err != nil {
				return "failed"
			}
			return sql + " | " + fmtParams(params)
		}
		want, wantP := "failed", "failed"
		if t, err := parse(in.query, in.df); err == nil {
			s, rerr := driver.NewPostgresDriver().Render(t)
			want = outcome(s, nil, rerr)
			ps, pp, perr := driver.NewPostgresDriver().RenderParam(t)
			wantP = outcome(ps, pp, perr)
		}
		var gs, gps string
		var gpp []any
		var gerr, gperr error
		if in.df == "" {
			gs, gerr = lucene.ToPostgres(in.query)
			gps, gpp, gperr = lucene.ToParameterizedPostgres(in.query)
		} else {
			gs, gerr = lucene.ToPostgres(in.query, sharedDF)
			gps, gpp, gperr = lucene.ToParameterizedPostgres(in.query, sharedDF)
		}
		if got := outcome(gs, nil, gerr); got != want {
			return nil, report.Failf("wrapper-differs", "ToPostgres(%q, df=%q) gives %q (%v) but Parse followed by Render gives %q", in.query, in.df, got, gerr, want)
		}
		if got := outcome(gps, gpp, gperr); got != wantP {
			return nil, report.Failf("wrapper-differs", "ToParameterizedPostgres(%q, df=%q) gives %q (%v) but Parse followed by RenderParam gives %q", in.query, in.df, got, gperr, wantP)
		}
	}
	p := &prepared{e, ref}
	prepCache = map[[2]uint64]*prepared{{seed, uint64(corpus)}: p}
	return p, nil
}

func stress(c StressCase, st *report.Stats) (*report.Failure, int) {
	old := runtime.GOMAXPROCS(c.Procs)
	defer runtime.GOMAXPROCS(old)
	p, f := prepare(c.Seed, c.Corpus)
	if f != nil {
		return f, 0
	}
	e, ref := p.e, p.ref
	nin, nop := len(e.inputs), len(opNames)
	if c.Burst {
		if f := deepBurst(c); f != nil {
			return f, 0
		}
	}
	// concurrent phase: no synchronisation between workers apart from the start
	// barrier and the final join (anything more would add happens-before edges and
	// blind the race detector)
	type fail struct{ msg string }
	fails := make([][]string, c.Goroutines)
	logs := make([][]opRec, c.Goroutines)
	start := make(chan struct{})
	var wg sync.WaitGroup
	for g := 0; g < c.Goroutines; g++ {
		wg.Add(1)
		go func(g int) {
			defer wg.Done()
			rng := rand.New(rand.NewSource(int64(c.Seed)*7919 + int64(g)))
			hot := nin / 8
			if hot < 1 {
				hot = 1
			}
			<-start
			for k := 0; k < c.OpsPerG; k++ {
				i := rng.Intn(nin)
				if rng.Intn(2) == 0 {
					i = rng.Intn(hot) // concentrate on a few shared values
				}
				op := rng.Intn(nop)
				if rng.Intn(8) == 0 {
					runtime.Gosched()
				}
				t0 := time.Now().UnixNano()
				r := e.doOp(op, &e.inputs[i])
				t1 := time.Now().UnixNano()
				logs[g] = append(logs[g], opRec{g, op, i, t0, t1})
				if r != ref[i*nop+op] {
					fails[g] = append(fails[g], fmt.Sprintf("goroutine %d step %d: %s on %q (df=%q) returned %q, sequentially %q", g, k, opNames[op], e.inputs[i].query, e.inputs[i].df, r, ref[i*nop+op]))
				}
			}
		}(g)
	}
	close(start)
	wg.Wait()
	overlaps := countOverlaps(logs, nin)
	for g := range fails {
		if len(fails[g]) > 0 {
			return report.Failf("differs-from-sequential", "%s (and %d more); history tail of that goroutine: %s", fails[g][0], len(fails[g])-1, history(logs[g], e)), overlaps
		}
	}
	if f := unchanged(e, "after the concurrent run"); f != nil {
		return f, overlaps
	}
	return nil, overlaps
}

func deepBurst(c StressCase) *report.Failure {
	nest := func(open, mid, close string, n int) string {
		return strings.Repeat(open, n) + mid + strings.Repeat(close, n)
	}
	queries := []string{nest("NOT (", "a:[1 TO 5]", ")", 170), nest("(", "a:b OR c:d", ")", 170), nest("a:1 AND (", "b:2", ")", 170), nest("+(", "a:(x OR y)", ")", 170)}
	type res struct{ r, p, t string }
	ref := make([]res, len(queries))
	trees := make([]*expr.Expression, len(queries))
	one := func(i int) res {
		var out res
		s, err := driver.NewPostgresDriver().Render(trees[i])
		out.r = s + "|" + errS(err)
		ps, pp, perr := driver.NewPostgresDriver().RenderParam(trees[i])
		out.p = fmt.Sprintf("%s|%v|%s", ps, pp, errS(perr))
		ts, terr := lucene.ToPostgres(queries[i])
		out.t = ts + "|" + errS(terr)
		return out
	}
	for i, q := range queries {
		t, err := lucene.Parse(q)
		if err != nil {
			return nil // not parseable here: nothing to compare
		}
		trees[i] = t
		ref[i] = one(i)
	}
	workers := 32
	if runtime.GOMAXPROCS(0) < 4 {
		defer runtime.GOMAXPROCS(runtime.GOMAXPROCS(8))
	}
	fails := make([]string, workers)
	start := make(chan struct{})
	var wg sync.WaitGroup
	for g := 0; g < workers; g++ {
		wg.Add(1)
		go func(g int) {
			defer wg.Done()
			defer func() {
				if r := recover(); r != nil {
					fails[g] = fmt.Sprintf("panic: %v", r)
				}
			}()
			<-start
			for round := 0; round < 2; round++ {
				for i := range queries {
					if got := one(i); got != ref[i] && fails[g] == "" {
						fails[g] = fmt.Sprintf("goroutine %d: rendering the %d-byte nested query %.40q... concurrently gave %.200q / %.200q / %.200q, sequentially %.200q / %.200q / %.200q", g, len(queries[i]), queries[i], got.r, got.p, got.t, ref[i].r, ref[i].p, ref[i].t)
					}
				}
			}
		}(g)
	}
	close(start)
	wg.Wait()
	for _, f := range fails {
		if f != "" {
			return report.Failf("deep-burst-differs", "%s", f)
		}
	}
	return nil
}

func history(l []opRec, e *env) string {
	var b strings.Builder
	if len(l) > 12 {
		l = l[len(l)-12:]
	}
	for _, r := range l {
		fmt.Fprintf(&b, "[%s #%d] ", opNames[r.op], r.in)
	}
	return b.String()
}

func unchanged(e *env, when string) *report.Failure {
	for i := range e.inputs {
		in := &e.inputs[i]
		if in.tree == nil {
			continue
		}
		if !reflect.DeepEqual(in.tree, in.copy) {
			return report.Failf("mutated", "the shared expression of %q (df=%q) was modified %s: now %#v, snapshot %s", in.query, in.df, when, in.tree, in.snapG)
		}
		if g := fmt.Sprintf("%#v", in.tree); g != in.snapG {
			return report.Failf("mutated", "the shared expression of %q prints differently %s: %s vs %s", in.query, when, g, in.snapG)
		}
	}
	return nil
}

func countOverlaps(logs [][]opRec, nin int) int {
	per := make([][]opRec, nin)
	for _, l := range logs {
		for _, r := range l {
			per[r.in] = append(per[r.in], r)
		}
	}
	n := 0
	for _, rs := range per {
		sort.Slice(rs, func(i, j int) bool { return rs[i].start < rs[j].start })
		for i := range rs {
			for j := i + 1; j < len(rs) && rs[j].start < rs[i].end; j++ {
				if rs[j].g != rs[i].g {
					n++
				}
			}
		}
	}
	return n
}

func TestReplay(t *testing.T) {
	cfg := report.Load()
	if cfg.Replay == "" {
		t.Skip("no VERIF_REPLAY")
	}
	raw, err := os.ReadFile(cfg.Replay)
	if err != nil {
		t.Fatal(err)
	}
	var v report.Violation
	if err := json.Unmarshal(raw, &v); err != nil || v.Property != "C14" {
		t.Skip("not a C14 replay")
	}
	var c StressCase
	if err := json.Unmarshal(v.Case, &c); err != nil {
		t.Fatal(err)
	}
	st := report.New("C14", cfg)
	for i := 0; i < 5; i++ {
		if f, _ := stress(c, st); f != nil {
			fmt.Printf("REPLAY-FAILS property=C14 sub=%s\n  why: %s\n", f.Sub, f.Msg)
			t.Fail()
			return
		}
	}
	fmt.Println("REPLAY-PASSES property=C14 (schedule-dependent failures may not reproduce; see the history in the replay file)")
}

func TestC14(t *testing.T) {
	cfg := report.Load()
	st := report.New("C14", cfg)
	defer st.Finish(t)
	st.Rule("a seed-determined corpus of queries (rapid trees over every operator and leaf form with hostile values, plus the repository's own inputs; every third with a default field), each parsed once into a SHARED expression; N goroutines behind a barrier each run a seed-determined sequence of {Parse, ToPostgres, ToParameterizedPostgres, Render, RenderParam, String, %#v, Validate, json.Marshal, json.Unmarshal, Render with a shared custom driver} concentrated on a few hot inputs, over a grid of goroutine counts and GOMAXPROCS values, in a binary built with -race. Oracle: every concurrent result equals the sequential result for the same (operation, input); repeated sequential runs (forward and in reverse order) agree; each shared tree is deep-equal to a structural copy taken before use; the race detector reports nothing. Non-trivial = a pair of operations on the same shared input by two different goroutines whose wall-clock intervals overlapped; distinct by (input, operations, goroutines).")
	st.Assume("the harness does not own the Go scheduler: schedules are sampled, not enumerated", "the race detector only sees executed code", "workers share no harness-side synchronisation besides the start barrier and the final join, so that no happens-before edge hides a race")
	type grid struct{ g, p int }
	grids := []grid{{2, 2}, {8, 4}, {32, 16}, {8, 1}}
	rounds, ops, corpus := 3, 500, 200
	if cfg.Thorough() {
		grids = []grid{{2, 1}, {2, 2}, {8, 2}, {8, 4}, {32, 4}, {32, 16}, {128, 16}, {16, 16}}
		rounds, ops, corpus = 8, 1500, 600
	}
	st.Stream("stress", false, fmt.Sprintf("%d rounds x %d (goroutines, GOMAXPROCS) settings x %d operations per goroutine over a corpus of %d queries", rounds, len(grids), ops, corpus))
	totalOverlap := 0
	for r := 0; r < rounds; r++ {
		for gi, gr := range grids {
			if (r*len(grids)+gi)%cfg.NShards != cfg.Shard {
				continue
			}
			c := StressCase{Seed: cfg.Seed*1000 + uint64(r), Corpus: corpus, Goroutines: gr.g, Procs: gr.p, OpsPerG: ops, Burst: r == 0 && gi%2 == 1}
			f, ov := stress(c, st)
			for k := 0; k < gr.g*ops; k++ {
				st.Eval()
			}
			totalOverlap += ov
			st.ClassN(fmt.Sprintf("overlaps g=%d procs=%d", gr.g, gr.p), int64(ov))
			if f != nil {
				c.Note = f.Msg
				st.Violate("stress", c, f)
				return
			}
			// distinct non-trivial: one key per (round, setting, overlap bucket)
			for k := 0; k < ov && k < 2000; k++ {
				st.NonTrivial(fmt.Sprintf("%d/%d/%d/%d", c.Seed, gr.g, gr.p, k))
			}
			st.Sample(fmt.Sprintf("g%d", gr.g), map[string]any{"seed": c.Seed, "goroutines": gr.g, "gomaxprocs": gr.p, "ops_per_goroutine": ops, "overlapping_pairs_on_shared_inputs": ov})
		}
	}
	st.Extra("overlapping_pairs_total", totalOverlap)
}
