package sql

import (
	"encoding/json"
	"fmt"
	"strings"
	"testing"
	"unicode"
	"unicode/utf8"

	lucene "github.com/grindlemire/go-lucene"
	"github.com/grindlemire/go-lucene/pkg/lucene/expr"
	"github.com/grindlemire/go-lucene/verif/gen"
	"github.com/grindlemire/go-lucene/verif/report"
	"github.com/grindlemire/go-lucene/verif/sqlx"
	"pgregory.net/rapid"
)

// VerbatimCase: a string value, how it is written (quoted / escaped bare word) and
// where it is placed.
type VerbatimCase struct {
	W      string `json:"w"`
	WQ     string `json:"w_quoted"`
	Clause string `json:"clause"` // quote | escape
	Pos    string `json:"pos"`
	Text   string `json:"text,omitempty"`
}

var c08Positions = []string{"field-value", "bare", "cmp", "range-lo", "range-hi", "range-both", "range-open-hi", "bare-df", "and-bare-df", "not-bare-df", "list", "not", "must", "mustnot", "field-name", "and-bare", "group"}

func (c VerbatimCase) val() *gen.Val {
	if c.Clause == "quote" {
		return gen.Quoted(c.W)
	}
	return gen.EscapedWord(c.W)
}

// build returns the query text, a function that finds the leaf in the parsed tree,
// a function that finds the constant in the inline SQL, the expected parameter
// index, and whether the value is used as a column name.
// df returns the default field the position is parsed with ("" = none).
func (c VerbatimCase) df() string {
	if strings.HasSuffix(c.Pos, "-df") {
		return "dflt"
	}
	return ""
}

func (c VerbatimCase) build() (text string, leaf func(*expr.Expression) any, sqlc func(*sqlx.Expr) *sqlx.Expr, paramIdx int) {
	v := c.val().Src
	l := func(e *expr.Expression) *expr.Expression { x, _ := e.Left.(*expr.Expression); return x }
	r := func(e *expr.Expression) *expr.Expression { x, _ := e.Right.(*expr.Expression); return x }
	val := func(e *expr.Expression) any {
		if e == nil || e.Op != expr.Literal {
			if e == nil {
				return nil
			}
			return fmt.Sprintf("<%v %v>", e.Op, e.Left)
		}
		return e.Left
	}
	arg := func(i int) func(*sqlx.Expr) *sqlx.Expr {
		return func(w *sqlx.Expr) *sqlx.Expr {
			if w == nil || len(w.Args) <= i {
				return nil
			}
			return w.Args[i]
		}
	}
	switch c.Pos {
	case "field-value":
		return "f:" + v, func(e *expr.Expression) any { return val(r(e)) }, arg(1), 0
	case "bare":
		return v, func(e *expr.Expression) any { return val(e) }, func(w *sqlx.Expr) *sqlx.Expr { return w }, 0
	case "cmp":
		return "f:>=" + v, func(e *expr.Expression) any { return val(r(e)) }, arg(1), 0
	case "range-lo":
		return "f:[" + v + " TO zz]", func(e *expr.Expression) any {
			b, _ := e.Right.(*expr.RangeBoundary)
			if b == nil {
				return nil
			}
			x, _ := b.Min.(*expr.Expression)
			return val(x)
		}, arg(1), 0
	case "range-hi":
		return "f:[aa TO " + v + "]", func(e *expr.Expression) any {
			b, _ := e.Right.(*expr.RangeBoundary)
			if b == nil {
				return nil
			}
			x, _ := b.Max.(*expr.Expression)
			return val(x)
		}, arg(2), 1
	case "range-both":
		return "f:[" + v + " TO " + v + "]", func(e *expr.Expression) any {
			b, _ := e.Right.(*expr.RangeBoundary)
			if b == nil {
				return nil
			}
			x, _ := b.Max.(*expr.Expression)
			y, _ := b.Min.(*expr.Expression)
			if val(x) != val(y) {
				return nil
			}
			return val(x)
		}, arg(2), 1
	case "range-open-hi":
		return "f:{" + v + " TO *}", func(e *expr.Expression) any {
			b, _ := e.Right.(*expr.RangeBoundary)
			if b == nil {
				return nil
			}
			x, _ := b.Min.(*expr.Expression)
			return val(x)
		}, arg(1), 0
	case "list":
		return "f:(aa OR " + v + " OR 7)", func(e *expr.Expression) any {
			li := r(e)
			if li == nil {
				return nil
			}
			items, _ := li.Left.([]*expr.Expression)
			if len(items) != 3 {
				return nil
			}
			return val(items[1])
		}, arg(2), 1
	case "not":
		return "NOT f:" + v, func(e *expr.Expression) any { return val(r(l(e))) }, func(w *sqlx.Expr) *sqlx.Expr { return arg(1)(arg(0)(w)) }, 0
	case "must":
		return "+f:" + v, func(e *expr.Expression) any { return val(r(l(e))) }, arg(1), 0
	case "mustnot":
		return "-f:" + v, func(e *expr.Expression) any { return val(r(l(e))) }, func(w *sqlx.Expr) *sqlx.Expr { return arg(1)(arg(0)(w)) }, 0
	case "and-bare":
		return "g:1 AND " + v, func(e *expr.Expression) any { return val(r(e)) }, arg(1), 1
	case "group":
		return "f:(" + v + ")", func(e *expr.Expression) any { return val(r(e)) }, arg(1), 0
	case "bare-df": // the bare value scoped by a default field: dflt = v
		return v, func(e *expr.Expression) any { return val(r(e)) }, arg(1), 0
	case "and-bare-df":
		return "g:1 AND " + v, func(e *expr.Expression) any { return val(r(r(e))) }, func(w *sqlx.Expr) *sqlx.Expr { return arg(1)(arg(1)(w)) }, 1
	case "not-bare-df":
		return "NOT " + v, func(e *expr.Expression) any { return val(r(l(e))) }, func(w *sqlx.Expr) *sqlx.Expr { return arg(1)(arg(0)(w)) }, 0
	case "field-name":
		return v + ":x", func(e *expr.Expression) any {
			x := l(e)
			if x == nil || x.Op != expr.Literal {
				return nil
			}
			if col, ok := x.Left.(expr.Column); ok {
				return string(col)
			}
			return x.Left
		}, arg(0), -1
	}
	panic("unknown position " + c.Pos)
}

func checkC08(c VerbatimCase, active map[string]bool) (f *report.Failure, excluded string) {
	text, leaf, sqlc, pidx := c.build()
	defer func() {
		if r := recover(); r != nil {
			f = report.Failf("panic", "panic on %q: %v", text, r)
		}
	}()
	rangePos := strings.HasPrefix(c.Pos, "range-")
	var opts []func()
	_ = opts
	parse := func() (*expr.Expression, error) {
		if c.df() != "" {
			return lucene.Parse(text, lucene.WithDefaultField(c.df()))
		}
		return lucene.Parse(text)
	}
	e, err := parse()
	if err != nil {
		return report.Failf(c.Clause+":rejected", "Parse(%q) fails: %v; the %s value %s at position %s should be one string value", text, err, c.Clause, c.WQ, c.Pos), ""
	}
	if got := leaf(e); got != any(c.W) {
		return report.Failf(c.Clause+":tree", "Parse(%q): the value at position %s is %#v, want the string %s byte for byte (tree %#v)", text, c.Pos, got, c.WQ, e), ""
	}
	if rangePos && c.W == "*" && active["quoted-star-range-bound"] {
		return nil, "quoted-star-range-bound"
	}
	refusal := !utf8.ValidString(c.W) || strings.ContainsRune(c.W, 0)
	colRefusal := c.Pos == "field-name" && (c.W == "" || strings.Contains(c.W, `"`))
	sql, serr := toPG(text, c.df())
	if serr != nil {
		if !(refusal || colRefusal) {
			return report.Failf(c.Clause+":inline-error", "ToPostgres(%q) fails (%v) although %s is a NUL-free valid UTF-8 value", text, serr, c.WQ), ""
		}
	} else {
		w, perr := sqlx.ParseWhere(sql)
		if perr != nil {
			return report.Failf(c.Clause+":inline-unparsable", "ToPostgres(%q) = %s: %v", text, sql, perr), ""
		}
		k := sqlc(w)
		if c.Pos == "field-name" {
			if k == nil || k.K != sqlx.KCol || (k.Name != c.W && k.Name != clip63(c.W)) {
				return report.Failf(c.Clause+":inline-column", "ToPostgres(%q) = %s: the column PostgreSQL reads is %v, want %s", text, sql, k, c.WQ), ""
			}
		} else if k == nil || k.K != sqlx.KConst || k.Val.IsNum || k.Val.Str != c.W {
			return report.Failf(c.Clause+":inline-constant", "ToPostgres(%q) = %s: the constant PostgreSQL decodes at position %s is %v, want the string %s", text, sql, c.Pos, k, c.WQ), ""
		}
	}
	psql, params, perr := toPGParam(text, c.df())
	if perr != nil {
		if !(refusal || colRefusal) {
			return report.Failf(c.Clause+":param-error", "ToParameterizedPostgres(%q) fails (%v)", text, perr), ""
		}
		return nil, ""
	}
	if pidx >= 0 {
		if pidx >= len(params) {
			return report.Failf(c.Clause+":param-missing", "ToParameterizedPostgres(%q) = %s %#v: no parameter at index %d for %s", text, psql, params, pidx, c.WQ), ""
		}
		if s, ok := params[pidx].(string); !ok || s != c.W {
			return report.Failf(c.Clause+":param-value", "ToParameterizedPostgres(%q) = %s %#v: parameter %d is %#v, want the string %s", text, psql, params, pidx, params[pidx], c.WQ), ""
		}
	}
	return nil, ""
}

func init() {
	replayers["C08"] = func(raw json.RawMessage) *report.Failure {
		var c VerbatimCase
		if err := json.Unmarshal(raw, &c); err != nil {
			return report.Failf("replay", "bad case: %v", err)
		}
		f, _ := checkC08(c, nil)
		return f
	}
}

func charClasses(w string) []string {
	var out []string
	add := func(ok bool, name string) {
		if ok {
			out = append(out, name)
		}
	}
	add(strings.ContainsAny(w, `()[]{}:=<>+-~^`), "operator-chars")
	add(strings.ContainsAny(w, `*?`), "wildcard-chars")
	add(strings.ContainsAny(w, `/`), "slash")
	add(strings.ContainsAny(w, `\`), "backslash")
	add(strings.ContainsAny(w, `'`), "apostrophe")
	add(strings.ContainsAny(w, "%_,;"), "sql-chars")
	add(strings.IndexFunc(w, unicode.IsSpace) >= 0, "whitespace")
	add(strings.IndexFunc(w, unicode.IsDigit) >= 0, "digit")
	add(len(w) != utf8.RuneCountInString(w), "multibyte")
	up := " " + strings.ToUpper(w) + " "
	add(strings.Contains(up, " AND ") || strings.Contains(up, " OR ") || strings.Contains(up, " NOT ") || strings.Contains(up, " TO "), "keyword")
	add(w == "", "empty")
	return out
}

func TestC08(t *testing.T) {
	cfg := report.Load()
	st := report.New("C08", cfg)
	defer st.Finish(t)
	st.Rule("string values w (hostile-pool fragments mixed with random runes; every pool entry alone; operators, keywords, digits, wildcards, slashes, backslashes, apostrophes, whitespace, multi-byte runes at start / middle / end) written (quote clause, w without '\"') between double quotes or (escape clause, non-empty non-numeric non-keyword valid-UTF-8 w) as a bare word with a backslash before every rune outside [A-Za-z0-9_], placed at 12 positions: f:v, bare term, f:>=v, both range bounds, list element, under NOT / + / -, after AND, in a field group, and as a field name. Oracle: the value we started from - the tree leaf at that position is a Literal holding w byte for byte; the constant (or column) PostgreSQL's own scanner decodes from the inline SQL at that position equals w; w is the string parameter at the expected index. Render errors are accepted only for NUL / invalid UTF-8 values and for empty or '\"'-containing column names. Non-trivial = w contains a character outside [A-Za-z0-9]; distinct by (w, clause, position).")
	st.Assume("single-quoted phrases are not covered (the repository pins that they keep their quotes)", "PostgreSQL's literal decoding is libpg_query's")
	report.Regress(st, "C08")
	active := report.ActiveFindings(st, "C08")

	run := func(stream string, c VerbatimCase) bool {
		st.Eval()
		c.WQ = fmt.Sprintf("%q", c.W)
		f, excl := checkC08(c, active)
		if f != nil {
			c.Text, _, _, _ = c.build()
			st.Violate(stream, c, f)
			return false
		}
		if excl != "" {
			st.Excluded(excl)
			return true
		}
		cls := charClasses(c.W)
		for _, k := range cls {
			st.Class(c.Clause + ":" + k)
		}
		st.Class("pos:" + c.Pos)
		if len(cls) > 0 {
			st.NonTrivial(c.Clause + "\x00" + c.Pos + "\x00" + c.W)
			st.Sample(c.Clause+":"+c.Pos, c.WQ)
		}
		return true
	}
	okEscape := func(w string) bool {
		return w != "" && utf8.ValidString(w) && !gen.IsNumeric(w) && !gen.IsKeyword(w)
	}

	// every pool entry (and pairs with a letter before / after) x clause x position
	st.Stream("pool", true, fmt.Sprintf("every hostile-pool entry alone, prefixed and suffixed with a letter (%d strings) x {quote, escape} x %d positions", 3*len(gen.HostilePool), len(c08Positions)))
	idx := 0
	for _, p := range gen.HostilePool {
		for _, w := range []string{p, "x" + p, p + "y"} {
			for _, pos := range c08Positions {
				if idx%cfg.NShards == cfg.Shard {
					if !strings.Contains(w, `"`) {
						run("pool", VerbatimCase{W: w, Clause: "quote", Pos: pos})
					}
					if okEscape(w) {
						run("pool", VerbatimCase{W: w, Clause: "escape", Pos: pos})
					}
				}
				idx++
			}
		}
	}

	// every short string over the characters the property names (operators, keyword
	// letters, digits, wildcards, slashes, backslashes, whitespace) and the characters
	// that are special to SQL, x clause x position
	c08Alpha := []string{"a", "5", "O", "R", ".", "-", "+", "&", "|", "!", "(", ")", "{", "}", "[", "]", "^", "~", "*", "?", ":", `\`, "/", "'", `"`, "=", ">", "<", "%", "_", " ", "\t", "é", "$"}
	shortLen := 2
	if cfg.Thorough() {
		shortLen = 3
	}
	st.Stream("short-strings", true, fmt.Sprintf("every string of 1..%d characters over the %d-character alphabet %q x {quote (strings without '\"'), escape (non-numeric, non-keyword)} x %d positions", shortLen, len(c08Alpha), strings.Join(c08Alpha, ""), len(c08Positions)))
	idx = 0
	var short func(prefix string, left int)
	short = func(prefix string, left int) {
		if prefix != "" {
			for _, pos := range c08Positions {
				if idx%cfg.NShards == cfg.Shard {
					if !strings.Contains(prefix, `"`) {
						run("short-strings", VerbatimCase{W: prefix, Clause: "quote", Pos: pos})
					}
					if okEscape(prefix) {
						run("short-strings", VerbatimCase{W: prefix, Clause: "escape", Pos: pos})
					}
				}
				idx++
			}
		}
		if left == 0 {
			return
		}
		for _, a := range c08Alpha {
			short(prefix+a, left-1)
		}
	}
	short("", shortLen)

	st.Rapid(t, "random-values", cfg.N(40000, 2500000), func(rt *rapid.T) {
		clause := rapid.SampledFrom([]string{"quote", "escape"}).Draw(rt, "clause")
		var w string
		if rapid.IntRange(0, 9).Draw(rt, "long") == 0 {
			w = strings.Repeat(gen.GenHostileString(clause == "quote").Draw(rt, "unit"), rapid.IntRange(1, 200).Draw(rt, "rep"))
			if len(w) > 10000 {
				w = w[:10000]
				w = strings.ToValidUTF8(w, "")
			}
		} else {
			w = hostileString(rt, clause == "quote", clause == "quote")
		}
		if clause == "escape" && !okEscape(w) {
			w = "k" + strings.ToValidUTF8(w, "")
			if !okEscape(w) {
				w = "kk"
			}
		}
		c := VerbatimCase{W: w, Clause: clause, Pos: rapid.SampledFrom(c08Positions).Draw(rt, "pos")}
		if !run("random-values", c) {
			rt.Fatalf("violation")
		}
	})
}
