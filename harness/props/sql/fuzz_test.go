package sql

import (
	"fmt"
	"testing"
	"unicode/utf8"

	"github.com/grindlemire/go-lucene/internal/lex"
	"github.com/grindlemire/go-lucene/verif/gen"
	"github.com/grindlemire/go-lucene/verif/report"
)

// fuzzMaxLen bounds the inputs of the native fuzz targets: JSON encoding is quadratic in
// the nesting depth (a 4000-term chain takes seconds), and the engine kills a worker that
// spends too long on one input and reports that as a failing input. Large inputs are the
// business of the big-shape streams of C01.
const fuzzMaxLen = 1500

func fuzzFail(t *testing.T, st *report.Stats, c any, f *report.Failure) {
	st.Violate("native-fuzz", c, f)
	st.Flush()
	t.Fatalf("%s: %s", f.Sub, f.Msg)
}

var sqlSeeds = []string{
	"A:B AND C:D", "+foo OR (NOT(B))", "z:[* TO 10]", "(+a:b -c:d) OR (z:[1 TO *] NOT(foo))", `+bbq:"woo yay"`, "a:(foo OR baz OR bar)", `a:\(1\+1\)\:2`, `foo\ bar:b`,
	"a:/b [c]/", "a:>10 AND -b:<=-20", "a:{foo TO bar}", "a:'b'", `title:"The Right Way" AND go`, "a:*", `a:"'; DROP TABLE t; --"`, `a\"b:c`, "a:NaN", "a:Inf", `a:"\"`, `a:["x,y" TO "z"]`,
	`a:"$1"`, `a:"?"`, `"a?b":"?"`, "a:b?", `a:"/*"`, `a:"*/"`, "a:--", `a:"` + "\x00" + `"`,
}

// lexToks cuts an input into harness tokens with the lexer under test (provenance
// sets are a superset built from all term tokens).
func lexToks(s string) (toks []gen.Tok, ok bool) {
	l := lex.Lex(s)
	for i := 0; i <= len(s)+1; i++ {
		tk := l.Next()
		switch tk.Typ {
		case lex.TEOF:
			return toks, true
		case lex.TErr:
			return nil, false
		case lex.TLiteral, lex.TQuoted, lex.TRegexp:
			toks = append(toks, gen.RawTerm(tk.Val))
		case lex.TAnd, lex.TOr, lex.TNot, lex.TTO:
			toks = append(toks, gen.Kw(tk.Val, tk.Val))
		default:
			toks = append(toks, gen.Sym(tk.Val))
		}
	}
	return nil, false
}

func FuzzC02(f *testing.F) {
	for _, s := range sqlSeeds {
		f.Add(s, "")
		f.Add(s, `d;f`)
	}
	for _, h := range gen.HostilePool {
		f.Add(`a:"`+h+`"`, h)
	}
	f.Fuzz(func(t *testing.T, s, df string) {
		if len(s)+len(df) > fuzzMaxLen {
			return
		}
		toks, ok := lexToks(s)
		if !ok || len(toks) == 0 {
			return
		}
		st := report.FuzzStats("C02")
		st.Eval()
		c := rawSQLCase{SQLCase: SQLCase{Toks: toks, DF: df}, Raw: []byte(s)}
		fl, rendered, hostile := checkC02Raw(c)
		if fl != nil {
			fuzzFail(t, st, c, fl)
		}
		if rendered && hostile {
			st.NonTrivial(df + "\x00" + s)
		}
	})
}

func FuzzC08(f *testing.F) {
	for _, h := range gen.HostilePool {
		for p := range c08Positions {
			f.Add(h, uint8(p), true)
			f.Add("k"+h, uint8(p), false)
		}
	}
	f.Fuzz(func(t *testing.T, w string, pos uint8, quote bool) {
		if len(w) > fuzzMaxLen {
			return
		}
		if !utf8.ValidString(w) {
			return
		}
		c := VerbatimCase{W: w, WQ: fmt.Sprintf("%q", w), Pos: c08Positions[int(pos)%len(c08Positions)], Clause: "escape"}
		if quote {
			c.Clause = "quote"
			for _, r := range w {
				if r == '"' {
					return
				}
			}
		} else if w == "" || gen.IsNumeric(w) || gen.IsKeyword(w) {
			return
		}
		if (c.Pos == "range-lo" || c.Pos == "range-hi") && w == "*" {
			return // open finding F15
		}
		st := report.FuzzStats("C08")
		st.Eval()
		fl, _ := checkC08(c, map[string]bool{"quoted-star-range-bound": true})
		if fl != nil {
			c.Text, _, _, _ = c.build()
			fuzzFail(t, st, c, fl)
		}
		if len(charClasses(w)) > 0 {
			st.NonTrivial(c.Clause + "\x00" + c.Pos + "\x00" + w)
		}
	})
}
