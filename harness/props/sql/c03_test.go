package sql

import (
	"encoding/json"
	"fmt"
	"strings"
	"testing"

	"github.com/grindlemire/go-lucene/verif/gen"
	"github.com/grindlemire/go-lucene/verif/model"
	"github.com/grindlemire/go-lucene/verif/report"
	"github.com/grindlemire/go-lucene/verif/sqlx"
	"pgregory.net/rapid"
)

// FragCase is a query of the filterable fragment with its typed fields.
type FragCase struct {
	Tree   *gen.Node  `json:"tree"`
	Opts   gen.Opts   `json:"opts"`
	Fields []FieldDef `json:"fields"`
	Text   string     `json:"text,omitempty"`
}

// FieldDef is the serialisable form of a fieldSpec.
type FieldDef struct {
	Name *gen.Val `json:"name"`
	Num  bool     `json:"num"`
}

func (c FragCase) specs() []fieldSpec {
	var out []fieldSpec
	for _, f := range c.Fields {
		out = append(out, fieldSpec{name: f.Name, num: f.Num})
	}
	return out
}

func isStr(v *gen.Val) bool { return v != nil && v.IsString() }

// c03Signature names the open known finding (if any) a leaf falls under.
func c03Signature(n *gen.Node) string {
	if n.K == gen.NField && n.V != nil && n.V.K == gen.VWild && strings.Contains(n.V.S, "_") {
		return "underscore-in-pattern"
	}
	if n.K != gen.NRange {
		return ""
	}
	switch {
	case n.Lo == nil && n.Hi == nil:
		return "range-both-open"
	case (isStr(n.Lo) && n.Lo.S == "*") || (isStr(n.Hi) && n.Hi.S == "*"):
		return "quoted-star-range-bound"
	case (n.Lo == nil && isStr(n.Hi)) || (n.Hi == nil && isStr(n.Lo)):
		return "open-string-range"
	case !n.IncLo && (isStr(n.Lo) || isStr(n.Hi)):
		return "exclusive-string-range"
	}
	return ""
}

// sanitize rewrites leaves that fall under an ACTIVE known finding into the
// nearest form that does not (counted by the caller), so that the rest of the
// fragment keeps being searched.
func sanitize(tree *gen.Node, active map[string]bool, count func(string)) {
	tree.Walk(func(_ int, n *gen.Node) {
		sig := c03Signature(n)
		if sig == "" || !active[sig] {
			return
		}
		count(sig)
		switch sig {
		case "underscore-in-pattern":
			n.V = gen.Wild(strings.ReplaceAll(n.V.S, "_", "u"))
			return
		case "range-both-open":
			n.Lo = gen.Int(1)
			if isStrField(n) {
				n.Lo = gen.Word("k")
			}
		case "quoted-star-range-bound":
			if isStr(n.Lo) && n.Lo.S == "*" {
				n.Lo = gen.Word("star")
			}
			if isStr(n.Hi) && n.Hi.S == "*" {
				n.Hi = gen.Word("star")
			}
		case "open-string-range":
			if n.Lo == nil {
				n.Lo = gen.Word("a")
			} else {
				n.Hi = gen.Word("zzz")
			}
		case "exclusive-string-range":
			n.IncLo, n.IncHi = true, true
		}
		// the rewritten leaf may fall under another finding (e.g. exclusive + open)
		if s2 := c03Signature(n); s2 != "" && active[s2] {
			n.IncLo, n.IncHi = true, true
			if n.Lo == nil {
				n.Lo = gen.Word("a")
			}
			if n.Hi == nil {
				n.Hi = gen.Word("zzz")
			}
		}
	})
}

func isStrField(n *gen.Node) bool { return isStr(n.Lo) || isStr(n.Hi) }

func checkC03(c FragCase) (f *report.Failure, rows int, both bool) {
	text := gen.Text(c.Tree, c.Opts)
	defer func() {
		if r := recover(); r != nil {
			f = report.Failf("panic", "panic on %q: %v", text, r)
		}
	}()
	sql, err := toPG(text, "")
	if err != nil {
		return report.Failf("render-error", "ToPostgres(%q) fails: %v (the property says it succeeds on this fragment)", text, err), 0, false
	}
	w, err := sqlx.ParseWhere(sql)
	if err != nil {
		return report.Failf("unparsable", "ToPostgres(%q) = %s: %v", text, sql, err), 0, false
	}
	sawT, sawF := false, false
	for _, row := range probeRows(c.Tree, c.specs()) {
		want, qerr := model.EvalQuery(c.Tree, row)
		if qerr != nil {
			continue // row does not type-check against the query (e.g. pattern on a numeric field): outside the domain
		}
		rows++
		got, serr := w.Eval(row)
		if serr != nil {
			return report.Failf("sql-not-evaluable", "query %q -> SQL %s cannot be evaluated on the row %s: %v (the query itself evaluates to %v)", text, sql, rowString(row), serr, want), rows, false
		}
		if got != want {
			return report.Failf("row-differs", "query %q means %v on the row %s, but the SQL PostgreSQL reads, %s, is %v there\n  SQL text: %s", text, want, rowString(row), w, got, sql), rows, false
		}
		if want {
			sawT = true
		} else {
			sawF = true
		}
	}
	return nil, rows, sawT && sawF
}

func init() {
	replayers["C03"] = func(raw json.RawMessage) *report.Failure {
		var c FragCase
		if err := json.Unmarshal(raw, &c); err != nil {
			return report.Failf("replay", "bad case: %v", err)
		}
		f, _, _ := checkC03(c)
		return f
	}
}

// minimize greedily replaces the tree by sub-trees / simpler leaves while the
// failure persists (harness-level shrinking on top of rapid's).
func minimizeFrag(c FragCase, fails func(FragCase) bool) FragCase {
	for changed := true; changed; {
		changed = false
		var try func(n *gen.Node, set func(*gen.Node)) bool
		try = func(n *gen.Node, set func(*gen.Node)) bool {
			if n == nil {
				return false
			}
			for _, ch := range []*gen.Node{n.L, n.R} {
				if ch != nil {
					set(ch)
					if fails(c) {
						return true
					}
					set(n)
				}
			}
			if try(n.L, func(x *gen.Node) { n.L = x }) {
				return true
			}
			return try(n.R, func(x *gen.Node) { n.R = x })
		}
		if try(c.Tree, func(x *gen.Node) { c.Tree = x }) {
			changed = true
		}
	}
	return c
}

func TestC03(t *testing.T) {
	cfg := report.Load()
	st := report.New("C03", cfg)
	defer st.Finish(t)
	st.Rule("queries of the filterable fragment: 1-4 fields with a fixed type each (numeric: integers within int64 and decimals Go prints back as written; string: valid-UTF-8 NUL-free strings incl. quotes, commas, spaces, %, _, backslashes, written as bare words or quoted phrases); leaves f:v, f:>v >= < <=, [a TO b], {a TO b}, open ends, f:(v1 OR ...), f:pattern; operators AND, OR, NOT, +, -, parentheses; exhaustive over all depth <= 1 trees over a leaf alphabet with one leaf per (form x bound kind x inclusivity x value kind), rapid for deeper trees (depth <= 5). Oracle: ToPostgres succeeds; the output passes C02's scanner / grammar / whitelist steps; for every probe row (every constant of the field, c +- 1, midpoints, c +- 0.005 / 0.0005, beyond min and max; for strings s, s+\\x01, s+a, s minus its last character, last character +-1, empty; pattern instantiations and near misses) the predicate PostgreSQL's grammar reads evaluates to the same truth value as the query's meaning (written from the property text). Non-trivial = >= 2 leaves or one range / list / pattern leaf, and the probe rows produce both truth values; distinct by query text.")
	st.Assume("the query-meaning evaluator and the SQL evaluator (over the PostgreSQL AST) share only the comparison primitives", "NULLs, collations, mixed-type ranges, mixed brackets, bare terms, regexps and fuzzy/boost are outside the stated fragment", "open known findings are excluded by leaf signature (counted in excluded_known) and announced")
	report.Regress(st, "C03")
	active := report.ActiveFindings(st, "C03")

	ncase := 0
	run := func(stream string, c FragCase) bool {
		st.Eval()
		if ncase++; ncase%40 == 0 {
			dirtyState()
		}
		sanitize(c.Tree, active, st.Excluded)
		f, rows, both := checkC03(c)
		if f != nil {
			c = minimizeFrag(c, func(x FragCase) bool { ff, _, _ := checkC03(x); return ff != nil && ff.Sub == f.Sub })
			f, _, _ = checkC03(c)
			c.Text = gen.Text(c.Tree, c.Opts)
			st.Violate(stream, c, f)
			return false
		}
		st.ClassN("rows-evaluated", int64(rows))
		c.Tree.Walk(func(_ int, n *gen.Node) {
			if n.IsLeaf() {
				st.Class("leaf:" + n.Shape())
			}
		})
		leaves := c.Tree.Leaves()
		rich := false
		c.Tree.Walk(func(_ int, n *gen.Node) {
			if n.K == gen.NRange || n.K == gen.NList || (n.V != nil && n.V.K == gen.VWild) {
				rich = true
			}
		})
		if (leaves >= 2 || rich) && both {
			text := gen.Text(c.Tree, c.Opts)
			st.NonTrivial(text)
			st.Sample(stream, text)
		}
		return true
	}

	// exhaustive: depth <= 1 over a leaf alphabet with one leaf per form x kind
	n1, s1 := gen.Word("n"), gen.Word("s")
	fields := []FieldDef{{Name: n1, Num: true}, {Name: s1, Num: false}}
	var leaves []*gen.Node
	for _, num := range []bool{true, false} {
		f := s1
		var a, b, c3 *gen.Val = gen.Word("foo"), gen.Quoted("x, y"), gen.Word("bar")
		if num {
			f, a, b, c3 = n1, gen.Int(5), gen.Float("1.5"), gen.Int(-3)
		}
		leaves = append(leaves, &gen.Node{K: gen.NField, Field: f, V: a}, &gen.Node{K: gen.NField, Field: f, V: b})
		for _, cmp := range []string{">", ">=", "<", "<="} {
			leaves = append(leaves, &gen.Node{K: gen.NCmp, Field: f, Cmp: cmp, V: b})
		}
		for _, inc := range []bool{true, false} {
			leaves = append(leaves,
				&gen.Node{K: gen.NRange, Field: f, Lo: c3, Hi: a, IncLo: inc, IncHi: inc},
				&gen.Node{K: gen.NRange, Field: f, Lo: b, Hi: a, IncLo: inc, IncHi: inc},
				&gen.Node{K: gen.NRange, Field: f, Lo: nil, Hi: b, IncLo: inc, IncHi: inc},
				&gen.Node{K: gen.NRange, Field: f, Lo: a, Hi: nil, IncLo: inc, IncHi: inc},
				&gen.Node{K: gen.NRange, Field: f, Lo: nil, Hi: nil, IncLo: inc, IncHi: inc})
		}
		leaves = append(leaves, &gen.Node{K: gen.NList, Field: f, Vals: []*gen.Val{a, b, c3}})
	}
	leaves = append(leaves,
		&gen.Node{K: gen.NRange, Field: s1, Lo: gen.Quoted("00501"), Hi: gen.Quoted("09999"), IncLo: true, IncHi: true},
		&gen.Node{K: gen.NRange, Field: s1, Lo: gen.Quoted("10"), Hi: gen.Quoted("2.50"), IncLo: true, IncHi: true},
		&gen.Node{K: gen.NField, Field: s1, V: gen.EscapedWord("São Paulo")}, &gen.Node{K: gen.NField, Field: s1, V: gen.Quoted("a||b && c")},
		&gen.Node{K: gen.NField, Field: n1, V: gen.IntSrc("010")})
	leaves = append(leaves, &gen.Node{K: gen.NField, Field: s1, V: gen.Wild("f?o*")}, &gen.Node{K: gen.NField, Field: s1, V: gen.Wild("a_b*")},
		&gen.Node{K: gen.NField, Field: n1, V: gen.Float("0.001")}, &gen.Node{K: gen.NRange, Field: n1, Lo: gen.Float("0.001"), Hi: gen.Float("0.002"), IncLo: true, IncHi: true},
		&gen.Node{K: gen.NRange, Field: n1, Lo: gen.Float("1.125"), Hi: nil, IncLo: false, IncHi: false})
	depth := 1
	st.Stream("enum-fragment", true, fmt.Sprintf("all trees of operator depth <= %d over %d fragment leaves (one per form x bound kind x inclusivity x value kind), operators AND OR NOT + -", depth, len(leaves)))
	gen.EnumTrees(leaves, depth, gen.EnumOps{}, cfg.Shard, cfg.NShards, func(n *gen.Node) {
		// enumerated trees share sub-nodes: copy before sanitising
		run("enum-fragment", FragCase{Tree: gen.Clone(n), Fields: fields})
	})
	if cfg.Thorough() {
		// depth 2 over a 12-leaf selection (one per leaf form and field type)
		sel := []*gen.Node{leaves[0], leaves[5], leaves[6], leaves[10], leaves[14], leaves[16], leaves[17], leaves[22], leaves[23], leaves[27], leaves[33], leaves[len(leaves)-5]}
		st.Stream("enum-fragment-depth2", true, fmt.Sprintf("all trees of operator depth <= 2 over %d selected fragment leaves, operators AND OR NOT + -", len(sel)))
		gen.EnumTrees(sel, 2, gen.EnumOps{}, cfg.Shard, cfg.NShards, func(n *gen.Node) {
			run("enum-fragment-depth2", FragCase{Tree: gen.Clone(n), Fields: fields})
		})
	}

	st.Rapid(t, "random-fragment", cfg.N(6000, 600000), func(rt *rapid.T) {
		fs := genFields(rt)
		tree := genFragNode(rt, fs, 0)
		var defs []FieldDef
		for _, f := range fs {
			defs = append(defs, FieldDef{Name: f.name, Num: f.num})
		}
		c := FragCase{Tree: tree, Fields: defs}
		if rapid.IntRange(0, 3).Draw(rt, "style") == 0 {
			c.Opts = gen.Opts{Full: true}
		}
		// value lists written with their values grouped to the right or to the left:
		// f:(a OR (b OR c)) and f:((a OR b) OR c) are the list a, b, c
		if rapid.IntRange(0, 2).Draw(rt, "lstnest") == 0 {
			c.Opts.LstNest = map[int]int{}
			tree.Walk(func(id int, n *gen.Node) {
				if n.K == gen.NList && len(n.Vals) >= 3 {
					c.Opts.LstNest[id] = 1 + id%2
				}
			})
		}
		if !run("random-fragment", c) {
			rt.Fatalf("violation")
		}
	})
	_ = model.Row{}
}
