package sql

import (
	"strings"
	"sync/atomic"
	"testing"
	"unicode/utf8"

	lucene "github.com/grindlemire/go-lucene"
	"github.com/grindlemire/go-lucene/verif/gen"
	"github.com/grindlemire/go-lucene/verif/report"
	"pgregory.net/rapid"
)

var replayers = report.Replayers

// TestReplay re-executes a stored violation without the PBT library.
func TestReplay(t *testing.T) { report.RunReplay(t) }

// histCalls counts toPG / toPGParam calls. Every other call (the first one of a
// process included, so that a replayed case sees the same history) is preceded by
// the OTHER renderer on an unrelated query with the opposite default-field choice:
// what a renderer returns for s must not depend on what was rendered before it
// (a driver that keeps per-call state in its shared function map, a parser or a cache
// that remembers the previous default field, shared leaves rewritten in place ...).
// "zzhist" is a field name no generator uses.
var histCalls atomic.Uint64

const histQuery = `hz:h*y? OR hr:/h.*/ OR 7:[1 TO 7] OR hq "h p" OR hl:(1 OR b OR 2.5)`

func disturbHistory(df string, param bool) {
	defer func() { _ = recover() }()
	switch {
	case param && df == "":
		_, _ = lucene.ToPostgres(histQuery, lucene.WithDefaultField("zzhist"))
	case param:
		_, _ = lucene.ToPostgres(histQuery)
	case df == "":
		_, _, _ = lucene.ToParameterizedPostgres(histQuery, lucene.WithDefaultField("zzhist"))
	default:
		_, _, _ = lucene.ToParameterizedPostgres(histQuery)
	}
}

func toPG(s, df string) (string, error) {
	if histCalls.Add(1)%2 == 1 {
		disturbHistory(df, false)
	}
	if df == "" {
		return lucene.ToPostgres(s)
	}
	return lucene.ToPostgres(s, lucene.WithDefaultField(df))
}

func toPGParam(s, df string) (string, []any, error) {
	if histCalls.Add(1)%2 == 1 {
		disturbHistory(df, true)
	}
	if df == "" {
		return lucene.ToParameterizedPostgres(s)
	}
	return lucene.ToParameterizedPostgres(s, lucene.WithDefaultField(df))
}

// clip63 is PostgreSQL's identifier truncation: the longest prefix of at most 63
// bytes that ends on a character boundary.
func clip63(s string) string {
	if len(s) <= 63 {
		return s
	}
	n := 63
	for n > 0 && !utf8.RuneStart(s[n]) {
		n--
	}
	return s[:n]
}

// translate is the fixed pattern translation: an unescaped * becomes %, an
// unescaped ? becomes _, everything else (escaped characters with their backslash
// included) is copied.
func translate(p string) string {
	var b strings.Builder
	esc := false
	for _, r := range p {
		switch {
		case esc:
			esc = false
			b.WriteRune(r)
		case r == '\\':
			esc = true
			b.WriteRune(r)
		case r == '*':
			b.WriteByte('%')
		case r == '?':
			b.WriteByte('_')
		default:
			b.WriteRune(r)
		}
	}
	return b.String()
}

// hostileString draws a string from the hostile pool; raw allows NUL and invalid
// UTF-8 to stay in.
func hostileString(rt *rapid.T, quoteFree, raw bool) string {
	if raw && rapid.IntRange(0, 7).Draw(rt, "rawbytes") == 0 {
		s := string(rapid.SliceOfN(rapid.Byte(), 1, 6).Draw(rt, "bytes"))
		if quoteFree {
			s = strings.ReplaceAll(s, `"`, "")
		}
		return s
	}
	return gen.GenHostileString(quoteFree).Draw(rt, "hs")
}

// hostilize replaces some string values and field names of a tree by hostile ones,
// written as quoted phrases or as fully escaped bare words.
func hostilize(rt *rapid.T, tree *gen.Node, escaped bool) {
	mk := func(label string, allowEsc bool) *gen.Val {
		if allowEsc && escaped && rapid.IntRange(0, 2).Draw(rt, label+"esc") == 0 {
			s := hostileString(rt, false, false)
			if s != "" && !gen.IsNumeric(s) && !gen.IsKeyword(s) && utf8.ValidString(s) {
				return gen.EscapedWord(s)
			}
		}
		if rapid.IntRange(0, 7).Draw(rt, label+"sq") == 0 {
			// a single-quoted phrase is one token that denotes its whole text, quotes
			// included (F26: double quotes inside it used to vanish)
			h := strings.ReplaceAll(hostileString(rt, false, true), "'", "")
			if rapid.Bool().Draw(rt, label+"dq") {
				h = `"` + h
			}
			return gen.RawWord("'" + h + "'")
		}
		return gen.Quoted(hostileString(rt, true, true))
	}
	// hostile patterns: regexps with arbitrary bytes between the slashes, wildcard
	// words with escaped arbitrary runes (NUL, invalid UTF-8 and quotes included)
	pattern := func(v *gen.Val, label string) *gen.Val {
		h := hostileString(rt, false, true)
		if v.K == gen.VRegexp {
			body := strings.ReplaceAll(h, "/", "")
			for strings.HasSuffix(body, `\`) {
				body = body[:len(body)-1]
			}
			return gen.Regexp(body)
		}
		var b strings.Builder
		b.WriteString("w")
		for len(h) > 0 {
			r, w := utf8.DecodeRuneInString(h)
			b.WriteString(`\`)
			if r == utf8.RuneError && w == 1 {
				b.WriteByte(h[0])
			} else {
				b.WriteRune(r)
			}
			h = h[w:]
		}
		b.WriteString(rapid.SampledFrom([]string{"*", "?", "*x?"}).Draw(rt, label+"tail"))
		return gen.Wild(b.String())
	}
	tree.Walk(func(_ int, n *gen.Node) {
		repl := func(v **gen.Val, label string) {
			if *v != nil && (*v).IsString() && rapid.IntRange(0, 2).Draw(rt, label) == 0 {
				*v = mk(label, true)
			}
			if *v != nil && !(*v).IsPlain() && rapid.IntRange(0, 1).Draw(rt, label+"pat") == 0 {
				*v = pattern(*v, label)
			}
		}
		repl(&n.V, "v")
		repl(&n.Lo, "lo")
		repl(&n.Hi, "hi")
		for i := range n.Vals {
			repl(&n.Vals[i], "lv")
		}
		if n.Field != nil && rapid.IntRange(0, 3).Draw(rt, "hf") == 0 {
			n.Field = mk("field", true)
		}
	})
}

// dirtyState makes a few renders that fail half-way (a rejected value after an
// accepted one, a refused column name, an unrenderable operator). Called now and
// then between cases, it leaves behind whatever state a renderer wrongly keeps
// across calls (pooled buffers, caches), so that the next case sees it.
func dirtyState() {
	for _, q := range []string{"a:(\"ok\" OR \"b\x00d\")", "a:[\"ok\" TO \"\xff\"]", "x:1 AND \"q\\\"r\":2", "a:b AND c~2", "k:(1 OR 2 OR \"\x00\")", "a:\"left\" AND b:/\x00/"} {
		func() {
			defer func() { _ = recover() }()
			_, _ = toPG(q, "")
			_, _, _ = toPGParam(q, "dflt")
		}()
	}
}
