package sql

import (
	"encoding/json"
	"fmt"
	"reflect"
	"strings"
	"testing"

	"github.com/grindlemire/go-lucene/verif/gen"
	"github.com/grindlemire/go-lucene/verif/model"
	"github.com/grindlemire/go-lucene/verif/report"
	"github.com/grindlemire/go-lucene/verif/sqlx"
	"pgregory.net/rapid"
)

// ParamCase: a renderable query tree, a second assignment of values of the same
// kinds to the same slots, and a default field.
type ParamCase struct {
	Tree  *gen.Node `json:"tree"`
	Tree2 *gen.Node `json:"tree2,omitempty"`
	Opts  gen.Opts  `json:"opts"`
	DF    string    `json:"df"`
	Text  string    `json:"text,omitempty"`
	Text2 string    `json:"text2,omitempty"`
}

// valueSlots lists the value terms of a tree from left to right (field names and
// open range ends are not values).
func valueSlots(n *gen.Node, out *[]*gen.Val) {
	if n == nil {
		return
	}
	switch n.K {
	case gen.NTerm, gen.NField, gen.NCmp:
		*out = append(*out, n.V)
	case gen.NRange:
		if n.Lo != nil {
			*out = append(*out, n.Lo)
		}
		if n.Hi != nil {
			*out = append(*out, n.Hi)
		}
	case gen.NList:
		*out = append(*out, n.Vals...)
	default:
		valueSlots(n.L, out)
		valueSlots(n.R, out)
	}
}

func expectedParam(v *gen.Val) any {
	switch v.K {
	case gen.VInt:
		return v.I
	case gen.VFloat:
		return v.F
	case gen.VWild:
		return translate(v.S)
	default:
		return v.S
	}
}

func hasStarBound(n *gen.Node) bool {
	found := false
	n.Walk(func(_ int, x *gen.Node) {
		if x.K == gen.NRange && ((isStr(x.Lo) && x.Lo.S == "*") || (isStr(x.Hi) && x.Hi.S == "*")) {
			found = true
		}
	})
	return found
}

func checkC04(c ParamCase) (f *report.Failure, nparams int, decidedBy string) {
	text := gen.Text(c.Tree, c.Opts)
	defer func() {
		if r := recover(); r != nil {
			f = report.Failf("panic", "panic on %q: %v", text, r)
		}
	}()
	sql, err := toPG(text, c.DF)
	if err != nil {
		return nil, 0, "not-renderable"
	}
	psql, params, perr := toPGParam(text, c.DF)
	if perr != nil {
		return report.Failf("param-fails", "ToPostgres(%q, df=%q) succeeds (%s) but ToParameterizedPostgres fails: %v", text, c.DF, sql, perr), 0, ""
	}
	bound, n := sqlx.Rebind(psql)
	if n != len(params) {
		return report.Failf("placeholder-count", "ToParameterizedPostgres(%q, df=%q) = %s with %d placeholders outside quotes but %d parameters %#v", text, c.DF, psql, n, len(params), params), len(params), ""
	}
	var slots []*gen.Val
	valueSlots(c.Tree, &slots)
	if len(slots) != len(params) {
		return report.Failf("param-list", "query %q (df=%q) has the %d values %s but ToParameterizedPostgres returned %d parameters %#v (SQL %s)", text, c.DF, len(slots), slotString(slots), len(params), params, psql), len(params), ""
	}
	// a wildcard term is a LIKE pattern (hence translated) only as the value of a
	// field, or as a bare operand that the default field scopes; everywhere else
	// (range bound, comparison value, inside a field group, bare without default
	// field) it is passed on as written, exactly as the inline renderer does
	pattern := map[*gen.Val]bool{}
	var mark func(n *gen.Node, scoped bool)
	mark = func(n *gen.Node, scoped bool) {
		if n == nil {
			return
		}
		switch n.K {
		case gen.NField:
			pattern[n.V] = true
		case gen.NTerm:
			pattern[n.V] = scoped && c.DF != ""
		case gen.NGroup:
			mark(n.L, false)
		default:
			mark(n.L, scoped)
			mark(n.R, scoped)
		}
	}
	mark(c.Tree, true)
	for i, v := range slots {
		want := expectedParam(v)
		if v.K == gen.VWild && !pattern[v] {
			want = v.S
		}
		if reflect.TypeOf(want) != reflect.TypeOf(params[i]) || want != params[i] {
			return report.Failf("param-value", "query %q (df=%q): parameter %d is %#v (%T), want the query's value %#v (%T) in left-to-right order; all: %#v", text, c.DF, i, params[i], params[i], want, want, params), len(params), ""
		}
	}
	// the returned slice belongs to the caller: scribbling over it must not change
	// what the next call returns
	keep := append([]any(nil), params...)
	for i := range params {
		params[i] = "scribbled by the caller"
	}
	if psqlAgain, paramsAgain, errAgain := toPGParam(text, c.DF); errAgain != nil || psqlAgain != psql || !sameParams(paramsAgain, keep) {
		return report.Failf("result-aliased", "ToParameterizedPostgres(%q, df=%q) returned %#v; after the caller overwrote that slice the same call returns %q %#v (%v)", text, c.DF, keep, psqlAgain, paramsAgain, errAgain), len(keep), ""
	}
	params = keep
	// equivalence of the two texts
	wi, err := sqlx.ParseWhere(sql)
	if err != nil {
		// an inline text PostgreSQL cannot read is C02's to report - unless the
		// parameterized text is fine: then the two outputs are certainly not equivalent
		if _, perr2 := sqlx.ParseWhere(bound); perr2 == nil {
			return report.Failf("not-equivalent", "query %q (df=%q): the parameterized SQL %s with %#v is a predicate, but the inline SQL %s is not one PostgreSQL can read (%v)", text, c.DF, psql, params, sql, err), len(params), ""
		}
		return nil, len(params), "inline-unparsable(C02)"
	}
	wp, err := sqlx.ParseWhere(bound)
	if err != nil {
		return report.Failf("param-unparsable", "ToParameterizedPostgres(%q) = %s: %v", text, psql, err), len(params), ""
	}
	var pv []model.Value
	for _, p := range params {
		switch x := p.(type) {
		case int:
			pv = append(pv, model.NumI(int64(x)))
		case float64:
			nv, err := model.Num(fmt.Sprintf("%v", x))
			if err != nil {
				return report.Failf("param-value", "float parameter %v is not a finite number", x), len(params), ""
			}
			pv = append(pv, nv)
		case string:
			pv = append(pv, model.Str(x))
		}
	}
	ws, err := wp.Subst(pv)
	if err != nil {
		return report.Failf("param-subst", "substituting the parameters into %s: %v", psql, err), len(params), ""
	}
	decidedBy = "normal-form"
	if normForm(wi) != normForm(ws) {
		decidedBy = "evaluation"
		consts := map[string]*fieldConsts{}
		collectConsts(c.Tree, consts)
		var fs []fieldSpec
		for name, fc := range consts {
			fs = append(fs, fieldSpec{name: gen.Quoted(name), num: fc.num})
		}
		if c.DF != "" {
			fs = append(fs, fieldSpec{name: gen.Quoted(c.DF)})
		}
		evaluated := 0
		for _, row := range probeRows(c.Tree, fs) {
			a, ea := wi.Eval(row)
			b, eb := ws.Eval(row)
			if (ea != nil) != (eb != nil) || (ea == nil && a != b) {
				return report.Failf("not-equivalent", "query %q (df=%q): inline SQL %s and parameterized SQL %s with %#v differ on the row %s: %v (%v) vs %v (%v)", text, c.DF, sql, psql, params, rowString(row), a, ea, b, eb), len(params), ""
			}
			if ea == nil {
				evaluated++
			}
		}
		if evaluated == 0 {
			// nothing could be evaluated (bare constants used as predicates, type
			// clashes): the two texts must then at least carry the same constants
			decidedBy = "constants"
			if a, b := constSeq(wi), constSeq(ws); a != b {
				return report.Failf("not-equivalent", "query %q (df=%q): inline SQL %s carries the constants %s but the parameterized SQL %s with %#v carries %s", text, c.DF, sql, a, psql, params, b), len(params), ""
			}
		}
	}
	// value independence
	if c.Tree2 != nil {
		text2 := gen.Text(c.Tree2, c.Opts)
		psql2, params2, err2 := toPGParam(text2, c.DF)
		if err2 != nil {
			if _, ierr := toPG(text2, c.DF); ierr == nil {
				return report.Failf("param-fails", "ToParameterizedPostgres(%q) fails (%v) although ToPostgres succeeds", text2, err2), len(params), ""
			}
			return nil, len(params), decidedBy
		}
		if psql2 != psql {
			return report.Failf("sql-depends-on-values", "replacing values by values of the same kind changed the parameterized SQL text:\n  %q -> %s\n  %q -> %s", text, psql, text2, psql2), len(params), ""
		}
		if len(params2) != len(params) {
			return report.Failf("sql-depends-on-values", "replacing values by values of the same kind changed the number of parameters: %q -> %#v, %q -> %#v", text, params, text2, params2), len(params), ""
		}
		for i := range params {
			if reflect.TypeOf(params[i]) != reflect.TypeOf(params2[i]) {
				return report.Failf("sql-depends-on-values", "parameter %d changed its Go kind: %T vs %T (%q / %q)", i, params[i], params2[i], text, text2), len(params), ""
			}
		}
	}
	return nil, len(params), decidedBy
}

// normForm prints the expression with BETWEEN rewritten to >= AND <= and nested
// AND / OR flattened.
func normForm(e *sqlx.Expr) string {
	switch e.K {
	case sqlx.KBetween:
		return "(" + normForm(e.Args[0]) + ">=" + normForm(e.Args[1]) + " AND " + normForm(e.Args[0]) + "<=" + normForm(e.Args[2]) + ")"
	case sqlx.KAnd, sqlx.KOr:
		op := " AND "
		if e.K == sqlx.KOr {
			op = " OR "
		}
		var parts []string
		var flat func(x *sqlx.Expr)
		flat = func(x *sqlx.Expr) {
			if x.K == e.K {
				for _, a := range x.Args {
					flat(a)
				}
				return
			}
			if x.K == sqlx.KBetween && e.K == sqlx.KAnd {
				parts = append(parts, normForm(x.Args[0])+">="+normForm(x.Args[1]), normForm(x.Args[0])+"<="+normForm(x.Args[2]))
				return
			}
			parts = append(parts, normForm(x))
		}
		flat(e)
		return "(" + strings.Join(parts, op) + ")"
	case sqlx.KCmp:
		return normForm(e.Args[0]) + e.Op + normForm(e.Args[1])
	case sqlx.KNot:
		return "NOT" + normForm(e.Args[0])
	}
	return e.String()
}

// constSeq lists the constants of an expression in text order.
func constSeq(e *sqlx.Expr) string {
	var out []string
	e.Walk(func(x *sqlx.Expr) {
		if x.K == sqlx.KConst {
			out = append(out, x.Val.String())
		}
	})
	return "[" + strings.Join(out, " ") + "]"
}

func slotString(vs []*gen.Val) string {
	var p []string
	for _, v := range vs {
		p = append(p, v.Src)
	}
	return "[" + strings.Join(p, " ") + "]"
}

func init() {
	replayers["C04"] = func(raw json.RawMessage) *report.Failure {
		var c ParamCase
		if err := json.Unmarshal(raw, &c); err != nil {
			return report.Failf("replay", "bad case: %v", err)
		}
		f, _, _ := checkC04(c)
		return f
	}
}

func copyTree(n *gen.Node) *gen.Node { return gen.Clone(n) }

// reassign replaces every value by another one of the same kind (patterns keep
// their wildcards at the same positions).
func reassign(rt *rapid.T, tree *gen.Node) *gen.Node {
	cp := copyTree(tree)
	newVal := func(v *gen.Val, bound bool) *gen.Val {
		if v == nil {
			return nil
		}
		switch v.K {
		case gen.VInt:
			return gen.GenIntVal().Draw(rt, "i2")
		case gen.VFloat:
			return gen.GenFloatVal().Draw(rt, "f2")
		case gen.VWild:
			var b strings.Builder
			for _, r := range v.S {
				if r == '*' || r == '?' {
					b.WriteRune(r)
				} else {
					b.WriteString(rapid.SampledFrom([]string{"p", "q", "7", "é", "_", "."}).Draw(rt, "pc"))
				}
			}
			return gen.Wild(b.String())
		case gen.VRegexp:
			return gen.GenRegexpVal().Draw(rt, "r2")
		default:
			for {
				s := genStrVal(rt)
				if !(bound && s.S == "*") {
					return s
				}
			}
		}
	}
	cp.Walk(func(_ int, n *gen.Node) {
		if n.V != nil {
			n.V = newVal(n.V, false)
		}
		n.Lo = newVal(n.Lo, true)
		n.Hi = newVal(n.Hi, true)
		for i := range n.Vals {
			n.Vals[i] = newVal(n.Vals[i], false)
		}
	})
	return cp
}

func TestC04(t *testing.T) {
	cfg := report.Load()
	st := report.New("C04", cfg)
	defer st.Finish(t)
	st.Rule("all renderable queries: rapid trees with every leaf form (bare terms, f:v, comparisons, ranges incl. open ends and mixed-type bounds, lists of mixed kinds, wildcard patterns incl. one-character ones, regexps of every length 0-6, quoted \"*\"), every operator except ~ ^, default field on/off; each with a second assignment of values of the same kinds to the same slots; plus every depth <= 1 tree over a leaf alphabet. Oracle: ToPostgres ok => ToParameterizedPostgres ok; placeholders outside quotes == parameters; the parameter list equals the query's values in left-to-right order with Go kinds int / float64 / string (patterns translated, open range ends absent) - the expected list comes from the generator's print plan; the inline SQL and the parameterized SQL with the parameters substituted have the same normal form or agree on every probe row; the second assignment yields byte-identical SQL text and a parameter list of the same length and kinds. Non-trivial = >= 1 parameter and a range, list, pattern, regexp or >= 2 leaves; distinct by (query text, df).")
	st.Assume("leaf signatures of open C03 / C08 findings are excluded where they would be double-counted (counted in excluded_known)")
	report.Regress(st, "C04")
	active := report.ActiveFindings(st, "C04")

	ncase := 0
	run := func(stream string, c ParamCase) bool {
		st.Eval()
		if ncase++; ncase%40 == 0 {
			dirtyState()
		}
		if active["quoted-star-range-bound"] && (hasStarBound(c.Tree) || (c.Tree2 != nil && hasStarBound(c.Tree2))) {
			st.Excluded("quoted-star-range-bound")
			return true
		}
		f, np, by := checkC04(c)
		if f != nil {
			if f.Sub != "sql-depends-on-values" {
				c.Tree2 = nil
				c.Tree = gen.Minimize(c.Tree, func(n *gen.Node) bool {
					ff, _, _ := checkC04(ParamCase{Tree: n, Opts: c.Opts, DF: c.DF})
					return ff != nil && ff.Sub == f.Sub
				})
				f, _, _ = checkC04(c)
			}
			c.Text = gen.Text(c.Tree, c.Opts)
			if c.Tree2 != nil {
				c.Text2 = gen.Text(c.Tree2, c.Opts)
			}
			st.Violate(stream, c, f)
			return false
		}
		st.Class("decided-by:" + by)
		rich := c.Tree.Leaves() >= 2
		c.Tree.Walk(func(_ int, n *gen.Node) {
			if n.K == gen.NRange || n.K == gen.NList || (n.V != nil && !n.V.IsPlain()) {
				rich = true
			}
			if n.IsLeaf() {
				st.Class("leaf:" + n.Shape())
			}
		})
		if np >= 1 && rich && by != "not-renderable" {
			text := gen.Text(c.Tree, c.Opts)
			st.NonTrivial(c.DF + "\x00" + text)
			st.Sample(stream+":"+by, fmt.Sprintf("%q df=%q", text, c.DF))
		}
		return true
	}

	f := gen.Word("f")
	leaves := []*gen.Node{
		{K: gen.NTerm, V: gen.Word("a")}, {K: gen.NTerm, V: gen.Int(5)}, {K: gen.NTerm, V: gen.Quoted("*")}, {K: gen.NTerm, V: gen.Wild("w*")}, {K: gen.NTerm, V: gen.Regexp("r")},
		{K: gen.NField, Field: f, V: gen.Word("b")}, {K: gen.NField, Field: f, V: gen.Float("1.5")}, {K: gen.NField, Field: f, V: gen.Quoted("*")},
		{K: gen.NField, Field: f, V: gen.Wild("*")}, {K: gen.NField, Field: f, V: gen.Wild("?")}, {K: gen.NField, Field: f, V: gen.Wild("b?z*")},
		{K: gen.NField, Field: f, V: gen.Regexp("")}, {K: gen.NField, Field: f, V: gen.Regexp("b")}, {K: gen.NField, Field: f, V: gen.Regexp("ab")}, {K: gen.NField, Field: f, V: gen.Regexp("abc")}, {K: gen.NField, Field: f, V: gen.Regexp("b [c]")},
		{K: gen.NCmp, Field: f, Cmp: ">=", V: gen.Int(7)}, {K: gen.NCmp, Field: f, Cmp: "<", V: gen.Word("m")},
		{K: gen.NRange, Field: f, Lo: gen.Int(1), Hi: gen.Int(5), IncLo: true, IncHi: true}, {K: gen.NRange, Field: f, Lo: gen.Float("0.001"), Hi: gen.Int(5)},
		{K: gen.NRange, Field: f, Lo: gen.Int(1), Hi: gen.Quoted("x"), IncLo: true, IncHi: true}, {K: gen.NRange, Field: f, Lo: gen.Word("aa"), Hi: gen.Int(3)},
		{K: gen.NRange, Field: f, Lo: nil, Hi: gen.Int(5), IncLo: true, IncHi: true}, {K: gen.NRange, Field: f, Lo: gen.Float("1.5"), Hi: nil},
		{K: gen.NRange, Field: f, Lo: gen.Word("aa"), Hi: nil, IncLo: true, IncHi: true}, {K: gen.NRange, Field: f, Lo: nil, Hi: nil, IncLo: true, IncHi: true},
		{K: gen.NRange, Field: f, Lo: gen.Word("aa"), Hi: gen.Quoted("z, z")},
		{K: gen.NList, Field: f, Vals: []*gen.Val{gen.Word("x"), gen.Int(2), gen.Quoted("*"), gen.Float("2.5")}},
		{K: gen.NRange, Field: f, Lo: gen.Wild("a*"), Hi: gen.Wild("b?"), IncLo: true, IncHi: true}, {K: gen.NCmp, Field: f, Cmp: ">=", V: gen.Wild("x*")},
		{K: gen.NField, Field: f, V: gen.IntSrc("010")}, {K: gen.NRange, Field: f, Lo: gen.IntSrc("007"), Hi: gen.IntSrc("0100"), IncLo: true, IncHi: true},
	}
	depth := 1
	if cfg.Thorough() {
		depth = 2
	}
	st.Stream("enum-renderable", true, fmt.Sprintf("all trees of operator depth <= %d over %d renderable leaves, operators AND OR NOT + - f:(E), df in {none, dflt}", depth, len(leaves)))
	gen.EnumTrees(leaves, depth, gen.EnumOps{Group: true}, cfg.Shard, cfg.NShards, func(n *gen.Node) {
		run("enum-renderable", ParamCase{Tree: n})
		run("enum-renderable", ParamCase{Tree: n, DF: "dflt"})
	})

	// awkward strings in pairs: every (lower, upper) pair of a pool of quoted strings that
	// end in a backslash, contain commas, apostrophes or the renderer's own separators, as
	// the bounds of a range, and each of them as value, comparison value and list element,
	// under field names that need quoting or escaping themselves (backslash, tab, dot,
	// blank). Inline and parameterized output are built by different code from the same
	// tree; a bound that confuses the inline renderer's splitting of "lo, hi", or a column
	// quoted differently on the two paths, shows as not-equivalent / param-list.
	awkward := []string{`x\`, "b,c", "', '", "a'b", `x\\`, ",", "'", `\'`, "a b", `x\, y`, "é", "'x', 'y'", " AND ", "1", `\,`, "z"}
	awkFields := []*gen.Val{gen.Word("f"), gen.EscapedWord(`a\b`), gen.Quoted("c\td"), gen.Quoted(`p\q`), gen.EscapedWord("m n"), gen.Word("x.y")}
	st.Stream("awkward-strings", true, fmt.Sprintf("%d x %d (lower, upper) pairs of awkward quoted strings as range bounds x {inclusive, exclusive}, and each string as value / comparison value / list element, x %d field names, df in {none, dflt}", len(awkward), len(awkward), len(awkFields)))
	aidx := 0
	awk := func(n *gen.Node) {
		if aidx%cfg.NShards == cfg.Shard {
			run("awkward-strings", ParamCase{Tree: n})
			run("awkward-strings", ParamCase{Tree: &gen.Node{K: gen.NAnd, L: n, R: &gen.Node{K: gen.NTerm, V: gen.Word("w")}}, DF: "dflt"})
		}
		aidx++
	}
	for _, fld := range awkFields {
		for _, lo := range awkward {
			awk(&gen.Node{K: gen.NField, Field: fld, V: gen.Quoted(lo)})
			awk(&gen.Node{K: gen.NCmp, Field: fld, Cmp: ">=", V: gen.Quoted(lo)})
			awk(&gen.Node{K: gen.NList, Field: fld, Vals: []*gen.Val{gen.Quoted(lo), gen.Int(2), gen.Quoted(lo + "x")}})
			for _, hi := range awkward {
				awk(&gen.Node{K: gen.NRange, Field: fld, Lo: gen.Quoted(lo), Hi: gen.Quoted(hi), IncLo: true, IncHi: true})
				awk(&gen.Node{K: gen.NRange, Field: fld, Lo: gen.Quoted(lo), Hi: gen.Quoted(hi)})
			}
		}
	}

	tcfg := gen.ParseCfg
	tcfg.Boost, tcfg.Fuzzy = false, false
	tcfg.Vals.Hostile = true
	st.Rapid(t, "random-renderable", cfg.N(15000, 1200000), func(rt *rapid.T) {
		tree := gen.GenTree(tcfg).Draw(rt, "tree")
		if rapid.IntRange(0, 5).Draw(rt, "star") == 0 {
			tree.Walk(func(_ int, n *gen.Node) {
				if n.V != nil && n.V.IsString() && n.K != gen.NCmp {
					n.V = gen.Quoted("*")
				}
			})
		}
		if rapid.IntRange(0, 3).Draw(rt, "patbound") == 0 {
			tree.Walk(func(_ int, n *gen.Node) {
				switch {
				case n.K == gen.NCmp && n.V.IsString():
					n.V = gen.GenWildVal().Draw(rt, "pcmp")
				case n.K == gen.NRange && n.Lo != nil && n.Lo.IsString():
					n.Lo = gen.GenWildVal().Draw(rt, "plo")
				case n.K == gen.NRange && n.Hi != nil && n.Hi.IsString():
					n.Hi = gen.GenWildVal().Draw(rt, "phi")
				}
				// a bound that is exactly * is the open end, not a pattern value
				for _, b := range []**gen.Val{&n.Lo, &n.Hi} {
					if n.K == gen.NRange && *b != nil && (*b).K == gen.VWild && (*b).S == "*" {
						*b = gen.Wild("a*")
					}
				}
			})
		}
		c := ParamCase{Tree: tree, DF: rapid.SampledFrom([]string{"", "", "dflt", "my field"}).Draw(rt, "df")}
		c.Tree2 = reassign(rt, tree)
		if rapid.IntRange(0, 3).Draw(rt, "full") == 0 {
			c.Opts.Full = true
		}
		if !run("random-renderable", c) {
			rt.Fatalf("violation")
		}
	})
}

// sameParams compares two parameter lists element by element; a nil and an empty
// list are the same list (no property distinguishes them).
func sameParams(a, b []any) bool {
	if len(a) != len(b) {
		return false
	}
	for i := range a {
		if !reflect.DeepEqual(a[i], b[i]) {
			return false
		}
	}
	return true
}
