package sql

import (
	"fmt"
	"math/big"
	"sort"
	"strconv"
	"strings"
	"unicode/utf8"

	"github.com/grindlemire/go-lucene/verif/gen"
	"github.com/grindlemire/go-lucene/verif/model"
	"pgregory.net/rapid"
)

// fieldSpec is a field of the filterable fragment with a fixed type.
type fieldSpec struct {
	name *gen.Val
	num  bool
}

var fragFieldNames = []*gen.Val{
	gen.Word("a"), gen.Word("b"), gen.Word("n1"), gen.Word("age_in_months"), gen.Word("x.y"), gen.Word("k-v"), gen.Word("1a"),
	gen.EscapedWord("foo bar"), gen.Quoted("my field"), gen.Word("é"), gen.Quoted("select"), gen.EscapedWord("p+q"),
}

var fragStrings = []string{"b", "foo", "bar", "az", "ab", "aaa", "The Right Way", "it's", "x,y", "a, b", " lead", "trail ", "100%", "a_b", "back\\slash",
	"O'Neil", "''", "semi;colon", "a||b", "x && y", "São Paulo", "日本(語)", "€5+tax", "00501", "09999", "10", "2.50", "1e3", "-7", "--c", "/*c*/", "é", "日本", "Z", "z", "zz", "", "5", "1.5", "NULL", "and", "x y z", "(p)", "[1 TO 2]", "q?", "s*r", "a\\", "tab\there", "new\nline"}

// exactAsWritten: the decimal denotes exactly the number Go prints back for it
// (the property's domain for numeric values).
func exactAsWritten(v *gen.Val) bool {
	if v.K != gen.VFloat {
		return true
	}
	w, ok1 := new(big.Rat).SetString(v.Src)
	p, ok2 := new(big.Rat).SetString(strconv.FormatFloat(v.F, 'g', -1, 64))
	return ok1 && ok2 && w.Cmp(p) == 0
}

func genNumVal(rt *rapid.T) *gen.Val {
	if rapid.IntRange(0, 2).Draw(rt, "isfloat") == 0 {
		if v := gen.GenFloatVal().Draw(rt, "f"); exactAsWritten(v) {
			return v
		}
		return gen.Float("2.5")
	}
	if rapid.IntRange(0, 4).Draw(rt, "small") > 0 {
		return gen.Int(rapid.IntRange(-20, 40).Draw(rt, "si"))
	}
	return gen.GenIntVal().Draw(rt, "i")
}

func genStrVal(rt *rapid.T) *gen.Val {
	var s string
	if rapid.IntRange(0, 3).Draw(rt, "pooled") > 0 {
		s = rapid.SampledFrom(fragStrings).Draw(rt, "s")
	} else {
		s = gen.GenHostileString(true).Draw(rt, "hs")
	}
	// the same string may be written three ways: bare word, quoted phrase, or a
	// bare word with every special character escaped
	if rapid.IntRange(0, 3).Draw(rt, "escaped") == 0 && s != "" && !gen.IsNumeric(s) && !gen.IsKeyword(s) && utf8.ValidString(s) {
		return gen.EscapedWord(s)
	}
	return gen.StringVal(s)
}

var fragPatterns = []string{`C\:\\Users\\*`, `foo\*bar*`, `x\?y?`, `a\ b*`, `p\\*`, "b*", "b?z", "*x", "a*b*c", "??", "fo?*", "x.*", "*", "?", "a_b*", "a_?", "*-*", "é*", "*a*"}

func genFragLeaf(rt *rapid.T, fields []fieldSpec) *gen.Node {
	f := rapid.SampledFrom(fields).Draw(rt, "field")
	val := func(label string) *gen.Val {
		if f.num {
			return genNumVal(rt)
		}
		return genStrVal(rt)
	}
	kinds := []gen.NKind{gen.NField, gen.NField, gen.NCmp, gen.NRange, gen.NRange, gen.NList}
	if !f.num {
		kinds = append(kinds, gen.NTerm) // stands for a pattern leaf below
	}
	k := rapid.SampledFrom(kinds).Draw(rt, "leafkind")
	n := &gen.Node{K: k, Field: f.name}
	switch k {
	case gen.NTerm:
		n.K = gen.NField
		n.V = gen.Wild(rapid.SampledFrom(fragPatterns).Draw(rt, "pat"))
	case gen.NField:
		n.V = val("v")
	case gen.NCmp:
		n.Cmp = rapid.SampledFrom([]string{">", ">=", "<", "<="}).Draw(rt, "cmp")
		n.V = val("v")
	case gen.NRange:
		open := rapid.IntRange(0, 6).Draw(rt, "open")
		if open != 0 && open != 6 {
			n.Lo = val("lo")
		}
		if open != 1 && open != 6 {
			n.Hi = val("hi")
		}
		if n.Lo != nil && n.Hi != nil {
			switch rapid.IntRange(0, 9).Draw(rt, "boundrel") {
			case 0:
				n.Hi = n.Lo // equal bounds
			case 1:
				n.Lo, n.Hi = n.Hi, n.Lo // possibly min > max
			}
		}
		n.IncLo = rapid.Bool().Draw(rt, "incl")
		n.IncHi = n.IncLo
	case gen.NList:
		cnt := rapid.IntRange(2, 4).Draw(rt, "nvals")
		if rapid.IntRange(0, 19).Draw(rt, "biglist") == 0 {
			cnt = rapid.IntRange(5, 30).Draw(rt, "nbig")
		}
		for i := 0; i < cnt; i++ {
			if i > 0 && rapid.IntRange(0, 7).Draw(rt, "dup") == 0 {
				n.Vals = append(n.Vals, n.Vals[rapid.IntRange(0, i-1).Draw(rt, "dupof")])
				continue
			}
			n.Vals = append(n.Vals, val("lv"))
		}
	}
	return n
}

func genFragNode(rt *rapid.T, fields []fieldSpec, depth int) *gen.Node {
	if depth == 0 && rapid.IntRange(0, 29).Draw(rt, "chain") == 0 {
		// a long chain of one operator (left- or right-deep)
		k := rapid.SampledFrom([]gen.NKind{gen.NAnd, gen.NOr}).Draw(rt, "chainop")
		cur := genFragLeaf(rt, fields)
		for i := rapid.IntRange(8, 30).Draw(rt, "chainlen"); i > 0; i-- {
			if rapid.Bool().Draw(rt, "right") {
				cur = &gen.Node{K: k, L: genFragLeaf(rt, fields), R: cur}
			} else {
				cur = &gen.Node{K: k, L: cur, R: genFragLeaf(rt, fields)}
			}
		}
		return cur
	}
	if depth >= 5 || rapid.IntRange(0, 9+3*depth).Draw(rt, "stop") >= 7 {
		return genFragLeaf(rt, fields)
	}
	switch k := rapid.SampledFrom([]gen.NKind{gen.NAnd, gen.NAnd, gen.NOr, gen.NOr, gen.NNot, gen.NMust, gen.NMustNot}).Draw(rt, "op"); k {
	case gen.NAnd, gen.NOr:
		return &gen.Node{K: k, L: genFragNode(rt, fields, depth+1), R: genFragNode(rt, fields, depth+1)}
	default:
		return &gen.Node{K: k, L: genFragNode(rt, fields, depth+1)}
	}
}

func genFields(rt *rapid.T) []fieldSpec {
	n := rapid.IntRange(1, 4).Draw(rt, "nfields")
	perm := rapid.Permutation(fragFieldNames).Draw(rt, "fieldnames")
	var out []fieldSpec
	for i := 0; i < n; i++ {
		out = append(out, fieldSpec{name: perm[i], num: rapid.Bool().Draw(rt, "num")})
	}
	return out
}

// ---- probe rows ---------------------------------------------------------------

type fieldConsts struct {
	num  bool
	nums []*big.Rat
	strs []string
	pats []string
}

func collectConsts(n *gen.Node, out map[string]*fieldConsts) {
	if n == nil {
		return
	}
	if n.Field != nil {
		fc := out[n.Field.S]
		if fc == nil {
			fc = &fieldConsts{}
			out[n.Field.S] = fc
		}
		add := func(v *gen.Val) {
			if v == nil {
				return
			}
			switch v.K {
			case gen.VWild:
				fc.pats = append(fc.pats, v.S)
			case gen.VInt, gen.VFloat:
				fc.num = true
				fc.nums = append(fc.nums, model.FromVal(v).Num)
			default:
				fc.strs = append(fc.strs, v.S)
			}
		}
		add(n.V)
		add(n.Lo)
		add(n.Hi)
		for _, v := range n.Vals {
			add(v)
		}
	}
	collectConsts(n.L, out)
	collectConsts(n.R, out)
}

func ratOf(s string) *big.Rat { r, _ := new(big.Rat).SetString(s); return r }

func bump(s string, d int) (string, bool) {
	if s == "" {
		return "", false
	}
	r, w := utf8.DecodeLastRuneInString(s)
	nr := r + rune(d)
	if nr <= 0 || !utf8.ValidRune(nr) || nr == '"' || r == utf8.RuneError {
		return "", false
	}
	return s[:len(s)-w] + string(nr), true
}

func instantiate(p string, star, q string) string {
	var b strings.Builder
	esc := false
	for _, r := range p {
		switch {
		case esc:
			esc = false
			b.WriteRune(r)
		case r == '\\':
			esc = true
		case r == '*':
			b.WriteString(star)
		case r == '?':
			b.WriteString(q)
		default:
			b.WriteRune(r)
		}
	}
	return b.String()
}

// candidates returns the probe values of one field: every region cut out by the
// query's constants is hit.
func candidates(fc *fieldConsts, declaredNum bool) []model.Value {
	var out []model.Value
	seen := map[string]bool{}
	add := func(v model.Value) {
		k := v.String()
		if !seen[k] {
			seen[k] = true
			out = append(out, v)
		}
	}
	if fc.num || (declaredNum && len(fc.strs) == 0 && len(fc.pats) == 0) {
		nums := append([]*big.Rat(nil), fc.nums...)
		sort.Slice(nums, func(i, j int) bool { return nums[i].Cmp(nums[j]) < 0 })
		if len(nums) == 0 {
			nums = []*big.Rat{ratOf("0")}
		}
		for i, c := range nums {
			add(model.Value{IsNum: true, Num: c})
			for _, d := range []string{"1", "-1", "0.005", "-0.005", "0.0005", "-0.0005", "0.004", "0.006"} {
				add(model.Value{IsNum: true, Num: new(big.Rat).Add(c, ratOf(d))})
			}
			if i+1 < len(nums) {
				mid := new(big.Rat).Add(c, nums[i+1])
				add(model.Value{IsNum: true, Num: mid.Quo(mid, ratOf("2"))})
			}
		}
		add(model.Value{IsNum: true, Num: new(big.Rat).Sub(nums[0], ratOf("1000"))})
		add(model.Value{IsNum: true, Num: new(big.Rat).Add(nums[len(nums)-1], ratOf("1000"))})
		add(model.NumI(0))
		return out
	}
	add(model.Str(""))
	add(model.Str("m"))
	for _, s := range fc.strs {
		add(model.Str(s))
		add(model.Str(s + "\x01"))
		add(model.Str(s + "a"))
		if s != "" {
			_, w := utf8.DecodeLastRuneInString(s)
			add(model.Str(s[:len(s)-w]))
		}
		if b, ok := bump(s, -1); ok {
			add(model.Str(b))
		}
		if b, ok := bump(s, +1); ok {
			add(model.Str(b))
		}
	}
	for _, p := range fc.pats {
		add(model.Str(instantiate(p, "", "k")))
		add(model.Str(instantiate(p, "x", "k")))
		add(model.Str(instantiate(p, "xyz", "é")))
		add(model.Str(instantiate(p, "", "")))         // ? -> nothing: near miss
		add(model.Str(instantiate(p, "x", "kk")))      // ? -> two characters: near miss
		add(model.Str(instantiate(p, "x", "k") + "!")) // trailing extra
		lit := instantiate(p, "x", "k")
		// each literal _ or % or other literal character changed
		rs := []rune(lit)
		for i, r := range rs {
			if r == '_' || r == '%' || r == '.' || r == '-' {
				cp := append([]rune(nil), rs...)
				cp[i] = 'Q'
				add(model.Str(string(cp)))
			}
		}
		if len(rs) > 0 {
			cp := append([]rune(nil), rs...)
			cp[0] = 'Q'
			add(model.Str(string(cp)))
		}
	}
	return out
}

// probeRows builds the rows: the full product when small, otherwise single-field
// sweeps around a base row plus a deterministic sample of the product.
func probeRows(tree *gen.Node, fields []fieldSpec) []model.Row {
	consts := map[string]*fieldConsts{}
	collectConsts(tree, consts)
	var names []string
	cands := map[string][]model.Value{}
	total := 1
	for _, f := range fields {
		fc := consts[f.name.S]
		if fc == nil {
			fc = &fieldConsts{}
		}
		names = append(names, f.name.S)
		cands[f.name.S] = candidates(fc, f.num)
		if total < 1<<30 {
			total *= len(cands[f.name.S])
		}
	}
	sort.Strings(names)
	row := func(idx []int) model.Row {
		r := model.Row{}
		for i, nme := range names {
			r[nme] = cands[nme][idx[i]]
		}
		return r
	}
	var rows []model.Row
	if total <= 1500 {
		idx := make([]int, len(names))
		for {
			rows = append(rows, row(idx))
			p := len(names) - 1
			for p >= 0 {
				idx[p]++
				if idx[p] < len(cands[names[p]]) {
					break
				}
				idx[p] = 0
				p--
			}
			if p < 0 {
				break
			}
		}
		return rows
	}
	base := make([]int, len(names))
	for i := range names {
		for j := range cands[names[i]] {
			idx := append([]int(nil), base...)
			idx[i] = j
			rows = append(rows, row(idx))
		}
	}
	state := uint64(len(tree.Shape()))*2654435761 + 12345
	for k := 0; k < 1500; k++ {
		idx := make([]int, len(names))
		for i := range names {
			state = state*6364136223846793005 + 1442695040888963407
			idx[i] = int((state >> 33) % uint64(len(cands[names[i]])))
		}
		rows = append(rows, row(idx))
	}
	return rows
}

func rowString(r model.Row) string {
	var ks []string
	for k := range r {
		ks = append(ks, k)
	}
	sort.Strings(ks)
	var b strings.Builder
	for _, k := range ks {
		fmt.Fprintf(&b, "%q=%v ", k, r[k])
	}
	return b.String()
}
