package sql

import (
	"encoding/json"
	"fmt"
	"regexp"
	"strconv"
	"strings"
	"testing"
	"unicode/utf8"

	"github.com/grindlemire/go-lucene/verif/gen"
	"github.com/grindlemire/go-lucene/verif/model"
	"github.com/grindlemire/go-lucene/verif/report"
	"github.com/grindlemire/go-lucene/verif/sqlx"
	"pgregory.net/rapid"
)

// SQLCase: a query given as a tree (with print options) or as a token sequence,
// and a default field.
type SQLCase struct {
	Tree  *gen.Node `json:"tree,omitempty"`
	Opts  gen.Opts  `json:"opts"`
	Toks  []gen.Tok `json:"toks,omitempty"`
	DF    string    `json:"df"`
	Text  string    `json:"text,omitempty"`
	Tight bool      `json:"tight,omitempty"` // token sequence written without optional whitespace
}

func (c SQLCase) toks() []gen.Tok {
	if c.Tree != nil {
		return gen.Print(c.Tree, c.Opts).Toks
	}
	return c.Toks
}

func (c SQLCase) text() string {
	if c.Tree != nil {
		return gen.Text(c.Tree, c.Opts)
	}
	if c.Tight {
		return gen.Join(c.Toks, gen.Opts{Fill: []string{""}})
	}
	return gen.JoinSpace(c.Toks)
}

// provenance collects what may legitimately appear: every term token's decoded
// text as a possible column name and as a possible string constant.
func provenance(toks []gen.Tok, df string) (cols, strs map[string]bool) {
	cols, strs = map[string]bool{}, map[string]bool{}
	if df != "" {
		cols[df], cols[clip63(df)] = true, true
	}
	for _, t := range toks {
		if t.Class != gen.TTerm {
			continue
		}
		var v gen.Val
		if t.Val != nil {
			v = *t.Val
		} else {
			d := model.Decode(t.Text)
			if !d.Known {
				// undocumented token form (single-quoted phrase, pattern with escapes
				// ...): its own text, also after the fixed pattern translation, is what
				// occurs in the query
				strs[t.Text], strs[translate(t.Text)], cols[t.Text], cols[clip63(t.Text)] = true, true, true, true
				continue
			}
			v = d.Val
		}
		switch v.K {
		case gen.VInt, gen.VFloat:
			cols[v.Src], strs[v.Src] = true, true
			// a numeric field name may be spelled canonically (007 -> 7)
			if v.K == gen.VInt {
				cols[strconv.Itoa(v.I)] = true
			} else {
				cols[strconv.FormatFloat(v.F, 'f', -1, 64)], cols[strconv.FormatFloat(v.F, 'g', -1, 64)], cols[strconv.FormatFloat(v.F, 'e', -1, 64)] = true, true, true
				if v.F == 0 {
					// -0.0 is the number 0 (the parser normalises the negative zero, fix F12)
					cols["0"] = true
				}
			}
			if v.S != "" {
				strs[v.S], cols[v.S] = true, true
			}
		case gen.VWild:
			strs[v.S], strs[translate(v.S)] = true, true
			cols[v.S], cols[clip63(v.S)] = true, true
		default:
			strs[v.S] = true
			cols[v.S], cols[clip63(v.S)] = true, true
		}
	}
	return
}

var plainRe = regexp.MustCompile(`^[A-Za-z_][A-Za-z0-9_]*$`)

func checkSQLText(kind, sql string, params []any, cols, strs map[string]bool, c SQLCase, text string) (*report.Failure, bool) {
	bound := sql
	if kind == "param" {
		var n int
		bound, n = sqlx.Rebind(sql)
		if n != len(params) {
			return report.Failf("placeholder-count", "ToParameterizedPostgres(%q, df=%q) returned %d placeholders outside quotes but %d parameters: %s %#v", text, c.DF, n, len(params), sql, params), false
		}
	} else if _, n := sqlx.Rebind(sql); n != 0 {
		return report.Failf("inline-placeholder", "ToPostgres(%q, df=%q) contains a bare ? outside quotes: %s", text, c.DF, sql), false
	}
	w, err := sqlx.ParseWhere(bound)
	if err != nil {
		return report.Failf(kind+":not-confined", "%s SQL of %q (df=%q) is not one confined whitelisted boolean expression: %v\n  SQL: %s", kind, text, c.DF, err, sql), false
	}
	var f *report.Failure
	hostile := false
	w.Walk(func(e *sqlx.Expr) {
		if f != nil {
			return
		}
		switch e.K {
		case sqlx.KCol:
			if !cols[e.Name] {
				f = report.Failf(kind+":column-provenance", "%s SQL of %q (df=%q) references column %q, which is neither a field name of the query nor the default field\n  SQL: %s", kind, text, c.DF, e.Name, sql)
			}
			if !plainRe.MatchString(e.Name) {
				hostile = true
			}
		case sqlx.KConst:
			if !e.Val.IsNum {
				if !strs[e.Val.Str] {
					f = report.Failf(kind+":constant-provenance", "%s SQL of %q (df=%q) contains the string constant %q, which is not a value of the query\n  SQL: %s", kind, text, c.DF, e.Val.Str, sql)
				}
				if !plainRe.MatchString(e.Val.Str) {
					hostile = true
				}
			}
		}
	})
	if f != nil {
		return f, false
	}
	for i, p := range params {
		switch v := p.(type) {
		case string:
			if !strs[v] {
				return report.Failf("param:param-provenance", "parameter %d of %q (df=%q) is %q, which is not a value of the query (params %#v)", i, text, c.DF, v, params), false
			}
			if !plainRe.MatchString(v) {
				hostile = true
			}
		case int, float64:
		default:
			return report.Failf("param:param-kind", "parameter %d of %q has Go type %T", i, text, p), false
		}
	}
	return nil, hostile
}

// rawSQLCase is a query given as raw text whose tokens were cut by the lexer.
type rawSQLCase struct {
	SQLCase
	Raw []byte `json:"raw"`
}

func checkC02Raw(c rawSQLCase) (*report.Failure, bool, bool) {
	return checkC02Text(c.SQLCase, string(c.Raw))
}

func checkC02(c SQLCase) (f *report.Failure, rendered, hostile bool) {
	return checkC02Text(c, c.text())
}

func checkC02Text(c SQLCase, text string) (f *report.Failure, rendered, hostile bool) {
	defer func() {
		if r := recover(); r != nil {
			f = nil // panics are C01's
		}
	}()
	cols, strs := provenance(c.toks(), c.DF)
	// the same text rendered first under another default field: whatever a renderer keeps
	// from that call (a cached tree, a pooled parser) must not leak a column into this one
	_, _ = toPG(text, c.DF+"_of_the_previous_call")
	if sql, err := toPG(text, c.DF); err == nil {
		rendered = true
		fl, h := checkSQLText("inline", sql, nil, cols, strs, c, text)
		if fl != nil {
			return fl, true, false
		}
		hostile = hostile || h
	}
	if sql, params, err := toPGParam(text, c.DF); err == nil {
		rendered = true
		fl, h := checkSQLText("param", sql, params, cols, strs, c, text)
		if fl != nil {
			return fl, true, false
		}
		hostile = hostile || h
	}
	return nil, rendered, hostile
}

func init() {
	replayers["C02"] = func(raw json.RawMessage) *report.Failure {
		var c rawSQLCase
		if err := json.Unmarshal(raw, &c); err != nil {
			return report.Failf("replay", "bad case: %v", err)
		}
		if c.Raw != nil {
			f, _, _ := checkC02Raw(c)
			return f
		}
		f, _, _ := checkC02(c.SQLCase)
		return f
	}
}

var c02Fields = []string{"", "", "dflt", "my field", `d"q`, "ü", strings.Repeat("long_field_name_", 5), "AND", "5", "x;y", "it's", "a--b", "/*c*/", "NaN"}

func TestC02(t *testing.T) {
	cfg := report.Load()
	st := report.New("C02", cfg)
	defer st.Finish(t)
	st.Rule("accepted queries with hostile content: rapid trees (every leaf form and operator except ~ ^, default field on/off with hostile default-field names) whose string values and field names are replaced by hostile-pool strings (quotes, backslashes, semicolons, comment openers, $1, ?, NaN/Inf, NUL, invalid UTF-8, > 63-byte names) written as quoted phrases and as fully escaped bare words; plus every token sequence up to a stated length over the full alphabet that happens to render. Oracle, for inline and parameterized SQL alike: valid UTF-8 without NUL; PostgreSQL's scanner sees no comment, no ';' and balanced parentheses; placeholders outside quotes == parameters; pg_query parses SELECT 1 FROM t WHERE (<sql>) as exactly that statement; the WHERE tree passes the whitelist walk; every column is a field name of the query or the default field (or its 63-byte clip); every string constant / string parameter is a value of the query (patterns also after the * -> %, ? -> _ translation). Non-trivial = rendered SQL with at least one column, constant or parameter whose text is not a plain identifier; distinct by (query text, df).")
	st.Assume("libpg_query (PostgreSQL 15 grammar) defines what PostgreSQL reads", "numeric constants are not tied to the query text here (C03)", "render errors are fine: the property is conditional on success")
	report.Regress(st, "C02")
	active := report.ActiveFindings(st, "C02")
	_ = active

	run := func(stream string, c SQLCase) bool {
		st.Eval()
		f, rendered, hostile := checkC02(c)
		if f != nil {
			if c.Tree != nil && len(c.Opts.Juxta) == 0 {
				c.Tree = gen.Minimize(c.Tree, func(n *gen.Node) bool {
					ff, _, _ := checkC02(SQLCase{Tree: n, Opts: c.Opts, DF: c.DF})
					return ff != nil && ff.Sub == f.Sub
				})
				f, _, _ = checkC02(c)
			}
			c.Text = c.text()
			st.Violate(stream, c, f)
			return false
		}
		switch {
		case rendered && hostile:
			st.Class("rendered-hostile")
			st.NonTrivial(c.DF + "\x00" + c.text())
			st.Sample(stream, fmt.Sprintf("%q df=%q", c.text(), c.DF))
		case rendered:
			st.Class("rendered-plain")
		default:
			st.Class("not-rendered")
		}
		return true
	}

	fullLen := 3
	if cfg.Thorough() {
		fullLen = 4
	}
	alpha := append(gen.FullAlphabet(), gen.RawTerm("NaN"), gen.RawTerm("Inf"), gen.Term(gen.Quoted("it's")), gen.Term(gen.EscapedWord("a;b")))
	st.Stream("enum-full", true, fmt.Sprintf("every token sequence of length 1..%d over %d tokens, df in {none, d\"q-free hostile}", fullLen, len(alpha)))
	gen.EnumSeqs(alpha, fullLen, cfg.Shard, cfg.NShards, func(seq []gen.Tok) {
		cp := append([]gen.Tok(nil), seq...)
		run("enum-full", SQLCase{Toks: cp})
		run("enum-full", SQLCase{Toks: cp, DF: "x;y"})
	})

	// (query, default field) pairs cut from one text at different colons, rendered
	// one after the other in the same process: a result must depend on its own
	// arguments only (aims at caches and other state keyed on concatenations)
	st.Stream("colon-splits", true, "all words w1:...:wk (k = 2..4) over {a, b, c} x every split into (default field, query) at a colon, all splits of one text rendered back to back, both orders")
	words := []string{"a", "b", "c"}
	var tuples [][]string
	var build func(cur []string, k int)
	build = func(cur []string, k int) {
		if len(cur) == k {
			tuples = append(tuples, append([]string(nil), cur...))
			return
		}
		for _, w := range words {
			build(append(cur, w), k)
		}
	}
	for k := 2; k <= 4; k++ {
		build(nil, k)
	}
	for ti, tu := range tuples {
		if ti%cfg.NShards != cfg.Shard {
			continue
		}
		mk := func(split int) SQLCase {
			var toks []gen.Tok
			for i, w := range tu[split:] {
				if i > 0 {
					toks = append(toks, gen.Sym(":"))
				}
				toks = append(toks, gen.Term(gen.Word(w)))
			}
			return SQLCase{Toks: toks, DF: strings.Join(tu[:split], ":"), Tight: true}
		}
		for split := 0; split < len(tu); split++ {
			run("colon-splits", mk(split))
		}
		for split := len(tu) - 1; split >= 0; split-- {
			run("colon-splits", mk(split))
		}
	}

	// every hostile payload as the field name (and as the default field) of every
	// leaf form, written quoted and as an escaped bare word
	st.Stream("payload-x-form", true, fmt.Sprintf("each of the %d hostile-pool entries as field name / default field x {quoted, escaped} x 10 leaf forms", len(gen.HostilePool)))
	forms := func(f *gen.Val) []*gen.Node {
		return []*gen.Node{
			{K: gen.NField, Field: f, V: gen.Word("v")}, {K: gen.NCmp, Field: f, Cmp: ">=", V: gen.Int(5)},
			{K: gen.NRange, Field: f, Lo: gen.Int(1), Hi: gen.Int(5), IncLo: true, IncHi: true}, {K: gen.NRange, Field: f, Lo: gen.Float("1.5"), Hi: gen.Float("2.5")},
			{K: gen.NRange, Field: f, Lo: gen.Word("a"), Hi: gen.Quoted("b c"), IncLo: true, IncHi: true}, {K: gen.NRange, Field: f, Lo: nil, Hi: gen.Int(5), IncLo: true, IncHi: true},
			{K: gen.NList, Field: f, Vals: []*gen.Val{gen.Word("x"), gen.Int(2)}}, {K: gen.NField, Field: f, V: gen.Wild("w*")}, {K: gen.NField, Field: f, V: gen.Regexp("re")},
			{K: gen.NNot, L: &gen.Node{K: gen.NField, Field: f, V: gen.Quoted("it's")}},
		}
	}
	pi := 0
	for _, h := range gen.HostilePool {
		var spellings []*gen.Val
		if !strings.Contains(h, `"`) {
			spellings = append(spellings, gen.Quoted(h))
		}
		if h != "" && utf8.ValidString(h) && !gen.IsNumeric(h) && !gen.IsKeyword(h) {
			spellings = append(spellings, gen.EscapedWord(h))
		}
		for _, f := range spellings {
			for _, n := range forms(f) {
				if pi%cfg.NShards == cfg.Shard {
					run("payload-x-form", SQLCase{Tree: n})
				}
				pi++
			}
		}
		if pi%cfg.NShards == cfg.Shard {
			run("payload-x-form", SQLCase{Tree: &gen.Node{K: gen.NAnd, L: &gen.Node{K: gen.NTerm, V: gen.Word("x")}, R: &gen.Node{K: gen.NRange, Field: gen.Word("n"), Lo: gen.Int(1), Hi: gen.Int(5), IncLo: true, IncHi: true}}, DF: h})
		}
		pi++
	}

	tcfg := gen.ParseCfg
	tcfg.Boost, tcfg.Fuzzy = false, false
	tcfg.Vals.Hostile = true
	st.Rapid(t, "hostile-trees", cfg.N(25000, 2000000), func(rt *rapid.T) {
		tree := gen.GenTree(tcfg).Draw(rt, "tree")
		hostilize(rt, tree, true)
		c := SQLCase{Tree: tree, DF: rapid.SampledFrom(c02Fields).Draw(rt, "df")}
		if rapid.IntRange(0, 3).Draw(rt, "juxta") == 0 {
			c.Opts.Juxta = map[int]bool{}
			tree.Walk(func(id int, n *gen.Node) {
				if n.K == gen.NAnd {
					c.Opts.Juxta[id] = true
				}
			})
		}
		if !run("hostile-trees", c) {
			rt.Fatalf("violation")
		}
	})
}
