// probe prints what go-lucene does with each argument (ad-hoc inspection tool).
package main

import (
	"encoding/json"
	"fmt"
	"os"

	lucene "github.com/grindlemire/go-lucene"
)

func main() {
	df := os.Getenv("DF")
	for _, in := range os.Args[1:] {
		func() {
			defer func() {
				if r := recover(); r != nil {
					fmt.Printf("%q PANIC %v\n", in, r)
				}
			}()
			var opts []func()
			_ = opts
			e, err := lucene.Parse(in)
			if df != "" {
				e, err = lucene.Parse(in, lucene.WithDefaultField(df))
			}
			fmt.Printf("%q\n  err=%v\n  tree=%#v\n", in, err, e)
			if err == nil {
				js, jerr := json.Marshal(e)
				fmt.Printf("  str=%s\n  json=%s %v\n", e, js, jerr)
				var s string
				var ps string
				var pp []any
				var e1, e2 error
				if df != "" {
					s, e1 = lucene.ToPostgres(in, lucene.WithDefaultField(df))
					ps, pp, e2 = lucene.ToParameterizedPostgres(in, lucene.WithDefaultField(df))
				} else {
					s, e1 = lucene.ToPostgres(in)
					ps, pp, e2 = lucene.ToParameterizedPostgres(in)
				}
				fmt.Printf("  sql=%s %v\n  psql=%s %#v %v\n", s, e1, ps, pp, e2)
			}
		}()
	}
}
