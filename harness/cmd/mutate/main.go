// Command mutate enumerates first-order source mutants of a Go file.
//
//	mutate -list file.go            prints one line per mutant: <index> <line> <kind> <detail>
//	mutate -apply N file.go > out   writes the file with mutant N applied
//
// It is the generator of the mutation-sensitivity experiment (DESIGN.md section 8):
// the mutants that still compile and pass the repository's own tests are run against
// the property checks. Mutation operators: relational / logical / arithmetic operator
// replacement, condition negation, boolean and integer constant replacement, removal
// of a unary !, statement deletion (assignments, calls, inc/dec, continue/break),
// case-body deletion, early-return removal (`if c { return ... }` bodies emptied is
// not done - it rarely compiles; instead the condition is forced to false / true).
package main

import (
	"flag"
	"fmt"
	"go/ast"
	"go/parser"
	"go/token"
	"os"
	"sort"
	"strconv"
)

type mutant struct {
	off, end int // byte range replaced
	repl     string
	kind     string
	line     int
}

var swaps = map[token.Token][]string{
	token.EQL:  {"!="},
	token.NEQ:  {"=="},
	token.LSS:  {"<=", ">="},
	token.LEQ:  {"<", ">"},
	token.GTR:  {">=", "<="},
	token.GEQ:  {">", "<"},
	token.LAND: {"||"},
	token.LOR:  {"&&"},
	token.ADD:  {"-"},
	token.SUB:  {"+"},
	token.MUL:  {"/"},
	token.QUO:  {"*"},
	token.REM:  {"*"},
}

func main() {
	list := flag.Bool("list", false, "list mutants")
	apply := flag.Int("apply", -1, "apply mutant N")
	flag.Parse()
	path := flag.Arg(0)
	src, err := os.ReadFile(path)
	if err != nil {
		panic(err)
	}
	fset := token.NewFileSet()
	f, err := parser.ParseFile(fset, path, src, parser.ParseComments)
	if err != nil {
		panic(err)
	}
	off := func(p token.Pos) int { return fset.Position(p).Offset }
	var ms []mutant
	add := func(p, e token.Pos, repl, kind string) {
		ms = append(ms, mutant{off(p), off(e), repl, kind, fset.Position(p).Line})
	}
	ast.Inspect(f, func(n ast.Node) bool {
		switch x := n.(type) {
		case *ast.GenDecl:
			if x.Tok == token.IMPORT {
				return false
			}
		case *ast.BinaryExpr:
			for _, r := range swaps[x.Op] {
				// string concatenation: + -> - does not compile, harmless
				add(x.OpPos, x.OpPos+token.Pos(len(x.Op.String())), r, "binop "+x.Op.String()+"->"+r)
			}
		case *ast.IfStmt:
			add(x.Cond.Pos(), x.Cond.End(), "!("+string(src[off(x.Cond.Pos()):off(x.Cond.End())])+")", "negate-if")
			add(x.Cond.Pos(), x.Cond.End(), "false", "if-false")
			add(x.Cond.Pos(), x.Cond.End(), "true", "if-true")
		case *ast.ForStmt:
			if x.Cond != nil {
				add(x.Cond.Pos(), x.Cond.End(), "false", "for-false")
			}
		case *ast.UnaryExpr:
			if x.Op == token.NOT {
				add(x.OpPos, x.OpPos+1, "", "drop-not")
			}
			if x.Op == token.SUB {
				add(x.OpPos, x.OpPos+1, "", "drop-neg")
			}
		case *ast.Ident:
			if x.Name == "true" {
				add(x.Pos(), x.End(), "false", "true->false")
			}
			if x.Name == "false" {
				add(x.Pos(), x.End(), "true", "false->true")
			}
		case *ast.BasicLit:
			if x.Kind == token.INT {
				if v, err := strconv.ParseInt(x.Value, 0, 64); err == nil {
					add(x.Pos(), x.End(), strconv.FormatInt(v+1, 10), "int+1")
					if v != 0 {
						add(x.Pos(), x.End(), strconv.FormatInt(v-1, 10), "int-1")
					}
				}
			}
			if x.Kind == token.STRING && len(x.Value) > 2 {
				add(x.Pos(), x.End(), `""`, "string-empty")
			}
		case *ast.CaseClause:
			if len(x.Body) > 0 {
				add(x.Body[0].Pos(), x.Body[len(x.Body)-1].End(), "", "case-body-deleted")
			}
			if len(x.List) > 1 {
				// drop one alternative of a multi-valued case
				for i, e := range x.List {
					if i == 0 {
						add(e.Pos(), x.List[1].Pos(), "", "case-alt-dropped")
					} else {
						add(x.List[i-1].End(), e.End(), "", "case-alt-dropped")
					}
				}
			}
		case *ast.BlockStmt:
			for _, st := range x.List {
				switch s := st.(type) {
				case *ast.ExprStmt, *ast.IncDecStmt:
					add(s.Pos(), s.End(), "", "stmt-deleted")
				case *ast.AssignStmt:
					if s.Tok != token.DEFINE {
						add(s.Pos(), s.End(), "", "assign-deleted")
					}
				case *ast.BranchStmt:
					if s.Tok == token.CONTINUE || s.Tok == token.BREAK {
						add(s.Pos(), s.End(), "", "branch-deleted")
					}
				case *ast.DeferStmt:
					add(s.Pos(), s.End(), "", "defer-deleted")
				case *ast.ReturnStmt:
					// return a, err -> swap nothing; return x (bool literal handled above)
				}
			}
		}
		return true
	})
	sort.SliceStable(ms, func(i, j int) bool { return ms[i].off < ms[j].off })
	if *list {
		for i, m := range ms {
			fmt.Printf("%d\t%d\t%s\n", i, m.line, m.kind)
		}
		return
	}
	if *apply >= 0 && *apply < len(ms) {
		m := ms[*apply]
		os.Stdout.Write(src[:m.off])
		os.Stdout.WriteString(m.repl)
		os.Stdout.Write(src[m.end:])
		return
	}
	os.Exit(3)
}
