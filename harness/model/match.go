package model

import (
	"math"
	"strconv"

	"github.com/grindlemire/go-lucene/pkg/lucene/expr"
	"github.com/grindlemire/go-lucene/verif/gen"
)

// MTok is a token as the derivation matcher sees it.
type MTok struct {
	Class gen.TClass
	Sym   string  // canonical symbol / upper-case keyword
	Dec   Decoded // term tokens: what the token denotes (M1)
}

// FromToks converts harness tokens (meaning known by construction or through M1).
func FromToks(toks []gen.Tok) []MTok {
	out := make([]MTok, len(toks))
	for i, t := range toks {
		out[i] = MTok{Class: t.Class, Sym: t.Sym}
		if t.Class == gen.TTerm {
			if t.Val != nil {
				out[i].Dec = Decoded{Known: true, Val: *t.Val}
				if t.Val.K == gen.VFloat && (math.IsNaN(t.Val.F) || math.IsInf(t.Val.F, 0)) {
					out[i].Dec.AltString = true
					out[i].Dec.Val.S = t.Text
				}
			} else {
				out[i].Dec = Decode(t.Text)
			}
		}
	}
	return out
}

type mkey struct {
	e    *expr.Expression
	i, j int
}

// Matcher decides whether a tree is a derivation of a token sequence in the
// documented grammar (M2). It never looks at precedence: any derivation counts.
type Matcher struct {
	toks  []MTok
	df    string
	pair  []int // index of matching bracket for ( ), -1 if none
	memo  map[mkey]bool
	terms []int // terms[i]: number of term tokens before position i
	cnt   map[*expr.Expression][2]int
}

// NewMatcher prepares a matcher for a token sequence and default field.
func NewMatcher(toks []MTok, defaultField string) *Matcher {
	m := &Matcher{toks: toks, df: defaultField, memo: map[mkey]bool{}}
	m.cnt = map[*expr.Expression][2]int{}
	m.terms = make([]int, len(toks)+1)
	for i, t := range toks {
		m.terms[i+1] = m.terms[i]
		if t.Class == gen.TTerm {
			m.terms[i+1]++
		}
	}
	m.pair = make([]int, len(toks))
	var st []int
	for i := range m.pair {
		m.pair[i] = -1
	}
	for i, t := range toks {
		if t.Class != gen.TSym {
			continue
		}
		switch t.Sym {
		case "(":
			st = append(st, i)
		case ")":
			if len(st) > 0 {
				o := st[len(st)-1]
				st = st[:len(st)-1]
				m.pair[o], m.pair[i] = i, o
			}
		}
	}
	return m
}

// Match reports whether the whole token sequence derives the tree.
func (m *Matcher) Match(e *expr.Expression) bool {
	return m.matchE(e, 0, len(m.toks))
}

func (m *Matcher) isSym(i int, s string) bool {
	return i >= 0 && i < len(m.toks) && m.toks[i].Class == gen.TSym && m.toks[i].Sym == s
}

func (m *Matcher) isKw(i int, s string) bool {
	return i >= 0 && i < len(m.toks) && m.toks[i].Class == gen.TKw && m.toks[i].Sym == s
}

func isLeaf(e *expr.Expression) bool {
	return e != nil && (e.Op == expr.Literal || e.Op == expr.Wild || e.Op == expr.Regexp)
}

func floatEq(a, b float64) bool {
	return a == b || (math.IsNaN(a) && math.IsNaN(b))
}

// tokIsLeaf: does term token t denote exactly the leaf e?
func tokIsLeaf(t MTok, e *expr.Expression, asColumn bool) bool {
	if t.Class != gen.TTerm || !isLeaf(e) || e.Right != nil {
		return false
	}
	if !t.Dec.Known {
		if t.Dec.KindOnly {
			if asColumn {
				_, isCol := e.Left.(expr.Column)
				return isCol
			}
			return e.Op == expr.Wild
		}
		return true // documented meaning unknown: position only
	}
	v := t.Dec.Val
	str := func(want string, op expr.Operator) bool {
		if asColumn {
			if c, ok := e.Left.(expr.Column); ok {
				return e.Op == expr.Literal && string(c) == want
			}
			return false
		}
		s, ok := e.Left.(string)
		return ok && e.Op == op && s == want
	}
	switch v.K {
	case gen.VInt:
		if asColumn {
			// a numeric field name is the column named by that number
			c, ok := e.Left.(expr.Column)
			return ok && e.Op == expr.Literal && (string(c) == strconv.Itoa(v.I) || string(c) == v.Src)
		}
		i, ok := e.Left.(int)
		return ok && e.Op == expr.Literal && i == v.I
	case gen.VFloat:
		if asColumn {
			c, ok := e.Left.(expr.Column)
			if !ok || e.Op != expr.Literal {
				return false
			}
			if f, err := strconv.ParseFloat(string(c), 64); err == nil && floatEq(f, v.F) {
				return true
			}
			return string(c) == v.Src
		}
		if f, ok := e.Left.(float64); ok && e.Op == expr.Literal && floatEq(f, v.F) {
			return true
		}
		return t.Dec.AltString && str(v.S, expr.Literal)
	case gen.VWord, gen.VQuoted:
		return str(v.S, expr.Literal)
	case gen.VWild:
		return str(v.S, expr.Wild)
	case gen.VRegexp:
		return str(v.S, expr.Regexp)
	}
	return false
}

// stripParens narrows [i,j) while it is one fully parenthesised non-empty group.
func (m *Matcher) stripParens(i, j int) (int, int) {
	for j-i > 2 && m.isSym(i, "(") && m.pair[i] == j-1 {
		i, j = i+1, j-1
	}
	return i, j
}

// leafRegion: [i,j) is a single term token (optionally parenthesised) denoting e.
func (m *Matcher) leafRegion(e any, i, j int, asColumn bool) bool {
	x, ok := e.(*expr.Expression)
	if !ok {
		return false
	}
	i, j = m.stripParens(i, j)
	return j-i == 1 && tokIsLeaf(m.toks[i], x, asColumn)
}

// numberRegion: [i,j) is one term token (optionally parenthesised) whose text is
// the number want.
func (m *Matcher) numberRegion(i, j int, want float64, mustInt bool) bool {
	i, j = m.stripParens(i, j)
	if j-i != 1 || m.toks[i].Class != gen.TTerm {
		return false
	}
	d := m.toks[i].Dec
	if !d.Known {
		return true
	}
	switch d.Val.K {
	case gen.VInt:
		return float64(d.Val.I) == want
	case gen.VFloat:
		// an integral number written with float syntax (1e3, 2.0) is that number
		return d.Val.F == want
	case gen.VQuoted, gen.VWord:
		// a~"2": the quoted text is that number
		dd := Decode(d.Val.S)
		if dd.Known && dd.Val.K == gen.VInt {
			return float64(dd.Val.I) == want
		}
		if dd.Known && dd.Val.K == gen.VFloat {
			return dd.Val.F == want
		}
	}
	return false
}

// listItems flattens [i,j) as an OR-tree of single terms (any association, any
// redundant parentheses) into the positions of its term tokens, in order.
func (m *Matcher) listItems(i, j int, out *[]int) bool {
	i, j = m.stripParens(i, j)
	if j <= i {
		return false
	}
	if j-i == 1 {
		if m.toks[i].Class != gen.TTerm {
			return false
		}
		*out = append(*out, i)
		return true
	}
	depth, start, parts := 0, i, 0
	for k := i; k < j; k++ {
		switch {
		case m.isSym(k, "("):
			depth++
		case m.isSym(k, ")"):
			depth--
			if depth < 0 {
				return false
			}
		case depth == 0 && m.isKw(k, "OR"):
			if !m.listItems(start, k, out) {
				return false
			}
			start = k + 1
			parts++
		}
	}
	if depth != 0 || parts == 0 {
		return false // not an OR of smaller lists
	}
	return m.listItems(start, j, out)
}

func (m *Matcher) listRegion(vals []*expr.Expression, i, j int) bool {
	var at []int
	if len(vals) == 0 || !m.listItems(i, j, &at) || len(at) != len(vals) {
		return false
	}
	for k, v := range vals {
		if v.Op != expr.Literal || !tokIsLeaf(m.toks[at[k]], v, false) {
			return false
		}
	}
	return true
}

// termBounds returns how many term tokens a derivation of e consumes at least and
// at most: one per leaf (field names included), plus an optional number per ~ / ^.
func (m *Matcher) termBounds(x any) (lo, hi int) {
	switch v := x.(type) {
	case *expr.Expression:
		if v == nil {
			return 0, 0
		}
		if c, ok := m.cnt[v]; ok {
			return c[0], c[1]
		}
		if isLeaf(v) {
			lo, hi = 1, 1
		} else {
			l1, h1 := m.termBounds(v.Left)
			l2, h2 := m.termBounds(v.Right)
			lo, hi = l1+l2, h1+h2
			if v.Op == expr.Fuzzy || v.Op == expr.Boost {
				hi++
			}
			if (v.Op == expr.Equals || v.Op == expr.Like) && m.df != "" {
				lo-- // a default-field wrapper has no field token
			}
		}
		m.cnt[v] = [2]int{lo, hi}
		return lo, hi
	case []*expr.Expression:
		for _, e := range v {
			l, h := m.termBounds(e)
			lo, hi = lo+l, hi+h
		}
	case *expr.RangeBoundary:
		if v != nil {
			l1, h1 := m.termBounds(v.Min)
			l2, h2 := m.termBounds(v.Max)
			return l1 + l2, h1 + h2
		}
	}
	return lo, hi
}

func (m *Matcher) matchE(e *expr.Expression, i, j int) bool {
	if e == nil || j <= i {
		return false
	}
	if lo, hi := m.termBounds(e); m.terms[j]-m.terms[i] < lo || m.terms[j]-m.terms[i] > hi {
		return false // wrong number of term tokens for this sub-tree: no derivation
	}
	k := mkey{e, i, j}
	if v, ok := m.memo[k]; ok {
		return v
	}
	m.memo[k] = false // cycle guard
	v := m.match1(e, i, j)
	m.memo[k] = v
	return v
}

func (m *Matcher) sub(x any, i, j int) bool {
	e, ok := x.(*expr.Expression)
	return ok && m.matchE(e, i, j)
}

func (m *Matcher) match1(e *expr.Expression, i, j int) bool {
	// (E)
	if j-i > 2 && m.isSym(i, "(") && m.pair[i] == j-1 && m.matchE(e, i+1, j-1) {
		return true
	}
	switch e.Op {
	case expr.Literal, expr.Wild, expr.Regexp:
		return j-i == 1 && tokIsLeaf(m.toks[i], e, false)
	case expr.Equals, expr.Like:
		// default-field wrapping of a bare term
		if m.df != "" {
			if l, ok := e.Left.(*expr.Expression); ok && l.Op == expr.Literal {
				if c, ok := l.Left.(expr.Column); ok && string(c) == m.df {
					if r, ok := e.Right.(*expr.Expression); ok && isLeaf(r) && m.matchE(r, i, j) {
						return true
					}
				}
			}
		}
		for k := i + 1; k < j-1; k++ {
			if (m.isSym(k, ":") || m.isSym(k, "=")) && m.leafRegion(e.Left, i, k, true) && m.sub(e.Right, k+1, j) {
				return true
			}
		}
		return false
	case expr.Greater, expr.Less, expr.GreaterEq, expr.LessEq:
		c := ">"
		if e.Op == expr.Less || e.Op == expr.LessEq {
			c = "<"
		}
		eq := e.Op == expr.GreaterEq || e.Op == expr.LessEq
		for k := i + 1; k < j-2; k++ {
			if !m.isSym(k, ":") || !m.isSym(k+1, c) || !m.leafRegion(e.Left, i, k, true) {
				continue
			}
			v := k + 2
			if eq {
				if !m.isSym(v, "=") {
					continue
				}
				v++
			}
			if v < j && m.sub(e.Right, v, j) {
				return true
			}
		}
		return false
	case expr.Range:
		b, ok := e.Right.(*expr.RangeBoundary)
		if !ok || b == nil {
			return false
		}
		cl := j - 1
		if !(m.isSym(cl, "]") || m.isSym(cl, "}")) {
			return false
		}
		for k := i + 1; k < j-5; k++ {
			if !m.isSym(k, ":") || !(m.isSym(k+1, "[") || m.isSym(k+1, "{")) || !m.leafRegion(e.Left, i, k, true) {
				continue
			}
			incl := m.isSym(k+1, "[") && m.isSym(cl, "]")
			if incl != b.Inclusive {
				continue
			}
			for to := k + 3; to < cl-1; to++ {
				if m.isKw(to, "TO") && m.leafRegion(b.Min, k+2, to, false) && m.leafRegion(b.Max, to+1, cl, false) {
					return true
				}
			}
		}
		return false
	case expr.In:
		r, ok := e.Right.(*expr.Expression)
		if !ok || r.Op != expr.List {
			return false
		}
		vals, ok := r.Left.([]*expr.Expression)
		if !ok || len(vals) < 2 {
			return false
		}
		for k := i + 1; k < j-1; k++ {
			if (m.isSym(k, ":") || m.isSym(k, "=")) && m.leafRegion(e.Left, i, k, true) && m.listRegion(vals, k+1, j) {
				return true
			}
		}
		return false
	case expr.Not:
		return e.Right == nil && m.isKw(i, "NOT") && m.sub(e.Left, i+1, j)
	case expr.Must:
		return e.Right == nil && m.isSym(i, "+") && m.sub(e.Left, i+1, j)
	case expr.MustNot:
		return e.Right == nil && m.isSym(i, "-") && m.sub(e.Left, i+1, j)
	case expr.Fuzzy, expr.Boost:
		s := "~"
		if e.Op == expr.Boost {
			s = "^"
		}
		want, mustInt := fuzzyBoostArg(e)
		if m.isSym(j-1, s) && want == 1 && m.sub(e.Left, i, j-1) {
			return true
		}
		for k := j - 2; k > i; k-- {
			if m.isSym(k, s) && m.numberRegion(k+1, j, want, mustInt) && m.sub(e.Left, i, k) {
				return true
			}
		}
		return false
	case expr.And, expr.Or:
		kw := "AND"
		if e.Op == expr.Or {
			kw = "OR"
		}
		for k := i + 1; k < j; k++ {
			if !m.sub(e.Left, i, k) {
				continue
			}
			if m.isKw(k, kw) && m.sub(e.Right, k+1, j) {
				return true
			}
			if e.Op == expr.And && m.sub(e.Right, k, j) {
				return true
			}
		}
		return false
	}
	return false
}
