package model

import (
	"reflect"

	"github.com/grindlemire/go-lucene/pkg/lucene/expr"
)

// fuzzyBoostArg reads the (unexported) distance / power of a fuzzy or boost node
// by reflection (reading unexported numeric fields is permitted).
func fuzzyBoostArg(e *expr.Expression) (want float64, mustInt bool) {
	v := reflect.ValueOf(e).Elem()
	if e.Op == expr.Fuzzy {
		return float64(v.FieldByName("fuzzyDistance").Int()), true
	}
	return v.FieldByName("boostPower").Float(), false
}

// FuzzyBoostArg exposes the recovered argument.
func FuzzyBoostArg(e *expr.Expression) (float64, bool) { return fuzzyBoostArg(e) }
