package model

import (
	"encoding/json"
	"reflect"

	"github.com/grindlemire/go-lucene/pkg/lucene/expr"
)

// fuzzyBoostArg recovers the distance / power of a fuzzy or boost node. The two
// numbers live in unexported fields; they are read by reflection (reading unexported
// numeric fields is permitted). Should a refactoring rename or retype those fields the
// public JSON encoding is used instead (keys "distance" / "power", omitted when 1), so
// that such a refactoring does not break the harness.
func fuzzyBoostArg(e *expr.Expression) (want float64, mustInt bool) {
	v := reflect.ValueOf(e).Elem()
	if e.Op == expr.Fuzzy {
		if f := v.FieldByName("fuzzyDistance"); f.IsValid() && f.CanInt() {
			return float64(f.Int()), true
		}
		return jsonArg(e, "distance"), true
	}
	if f := v.FieldByName("boostPower"); f.IsValid() && f.CanFloat() {
		return f.Float(), false
	}
	return jsonArg(e, "power"), false
}

func jsonArg(e *expr.Expression, key string) float64 {
	raw, err := json.Marshal(e)
	if err != nil {
		return 1
	}
	var top map[string]json.RawMessage
	if json.Unmarshal(raw, &top) != nil {
		return 1
	}
	var f float64
	if r, ok := top[key]; !ok || json.Unmarshal(r, &f) != nil {
		return 1
	}
	return f
}

// FuzzyBoostArg exposes the recovered argument.
func FuzzyBoostArg(e *expr.Expression) (float64, bool) { return fuzzyBoostArg(e) }
