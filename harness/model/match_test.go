package model

import (
	"strings"
	"testing"

	"github.com/grindlemire/go-lucene/pkg/lucene/expr"
	"github.com/grindlemire/go-lucene/verif/gen"
)

// toks cuts a space-separated query into harness tokens (terms decoded by M1).
func toks(s string) []gen.Tok {
	var out []gen.Tok
	for _, w := range strings.Fields(s) {
		switch {
		case strings.Contains("( ) [ ] { } : = > < + - ~ ^", w) && len(w) == 1:
			out = append(out, gen.Sym(w))
		case gen.IsKeyword(w):
			out = append(out, gen.Kw(w, strings.ToUpper(w)))
		default:
			out = append(out, gen.RawTerm(strings.ReplaceAll(w, "_", " "))) // "_" stands for a space inside quotes
		}
	}
	return out
}

type pair struct {
	in   string
	tree *expr.Expression
	df   string
}

// taken from the repository's TestParseLucene / README (tokens separated by spaces)
var good = []pair{
	{"a", expr.Lit("a"), ""},
	{"a : b", expr.Eq("a", "b"), ""},
	{"a : 5", expr.Eq("a", 5), ""},
	{"a : > 22", expr.GREATER("a", 22), ""},
	{"a : < = 22", expr.LESSEQ("a", 22), ""},
	{"a : b*", expr.LIKE("a", "b*"), ""},
	{"a : [ * TO 5 ]", expr.Rang("a", expr.WILD("*"), 5, true), ""},
	{"a : { foo TO bar }", expr.Rang("a", "foo", "bar", false), ""},
	{"a : { 1 TO 5 ]", expr.Rang("a", 1, 5, false), ""},
	{"b AND a ~", expr.AND("b", expr.FUZZY("a", 1)), ""},
	{"b AND a ~ 10", expr.AND("b", expr.FUZZY("a", 10)), ""},
	{"b AND a ^ 10", expr.AND("b", expr.BOOST("a", 10.0)), ""},
	{"a b", expr.AND("a", "b"), ""},
	{"a : b c : d", expr.AND(expr.Eq("a", "b"), expr.Eq("c", "d")), ""},
	{"a : foo OR NOT b : bar", expr.OR(expr.Eq("a", "foo"), expr.NOT(expr.Eq("b", "bar"))), ""},
	{"( a : foo OR b : bar ) AND c : baz", expr.AND(expr.OR(expr.Eq("a", "foo"), expr.Eq("b", "bar")), expr.Eq("c", "baz")), ""},
	{"a : ( foo OR baz OR bar )", expr.IN("a", expr.LIST(expr.Lit("foo"), expr.Lit("baz"), expr.Lit("bar"))), ""},
	{"a : ( foo OR ( baz OR bar ) )", expr.IN("a", expr.LIST(expr.Lit("foo"), expr.Lit("baz"), expr.Lit("bar"))), ""},
	{"+ a : b", expr.MUST(expr.Eq("a", "b")), ""},
	{"d : e AND ( - a : b AND + f : e )", expr.AND(expr.Eq("d", "e"), expr.AND(expr.MUSTNOT(expr.Eq("a", "b")), expr.MUST(expr.Eq("f", "e")))), ""},
	{`"foo_bar" ^ 4 AND a : b`, expr.AND(expr.BOOST(expr.Lit("foo bar"), 4), expr.Eq("a", "b")), ""},
	{"( ( title : foo ) ^ 1.2 OR title : bar )", expr.OR(expr.BOOST(expr.Eq("title", "foo"), 1.2), expr.Eq("title", "bar")), ""},
	{"a OR b AND c : [ * to -1 ] OR d AND NOT + e : f", expr.OR(expr.OR("a", expr.AND("b", expr.Rang("c", expr.WILD("*"), -1, true))), expr.AND("d", expr.NOT(expr.MUST(expr.Eq("e", "f"))))), ""},
	{`x\:y : 1.5`, expr.Eq("x:y", 1.5), ""},
	{"a AND b", expr.AND(expr.Eq(expr.Column("foo"), "a"), expr.Eq(expr.Column("foo"), "b")), "foo"},
	{"a", expr.Eq(expr.Column("foo"), "a"), "foo"},
	{"a : ( b )", expr.Eq("a", "b"), ""},
	{"a ~ ( 2 )", expr.FUZZY("a", 2), ""},
	{"a ~ 1e3", expr.FUZZY("a", 1000), ""},
	// precedence is deliberately ignored: any derivation counts
	{"a OR b AND c", expr.AND(expr.OR("a", "b"), "c"), ""},
}

var bad = []pair{
	{"a : b", expr.Eq("b", "a"), ""},                                              // reordered
	{"a : b", expr.Eq("a", "c"), ""},                                              // invented value
	{"a : 5", expr.Eq("a", "5"), ""},                                              // mistyped: number became a string
	{`a : "5"`, expr.Eq("a", 5), ""},                                              // mistyped: quoted string became a number
	{"a b", expr.Lit("a"), ""},                                                    // dropped term
	{"a b", expr.AND("a", expr.AND("b", "b")), ""},                                // duplicated term
	{"a AND b", expr.OR("a", "b"), ""},                                            // operator consumed by the wrong node kind
	{"( ( ) NOT a )", expr.NOT("a"), ""},                                          // empty group dropped
	{"a ~ + 5", expr.FUZZY("a", 5), ""},                                           // operator token dropped
	{"a : [ 1 TO 5 ]", expr.Rang("a", 1, 5, false), ""},                           // inclusivity
	{"a : [ 1 TO 5 ]", expr.Rang("a", 5, 1, true), ""},                            // bounds swapped
	{"NOT a", expr.MUSTNOT("a"), ""},                                              // wrong unary
	{"a ~ 2", expr.FUZZY("a", 3), ""},                                             // wrong distance
	{"a : ( x OR y )", expr.IN("a", expr.LIST(expr.Lit("y"), expr.Lit("x"))), ""}, // list order
	{"a : b*", expr.Eq("a", expr.Lit("b*")), ""},                                  // pattern became a plain value
	{"a", expr.Eq(expr.Column("foo"), "a"), ""},                                   // default-field wrap without a default field
	{"( a", expr.Lit("a"), ""},                                                    // unpaired bracket
	{"a : b c", expr.Eq("a", "b"), ""},                                            // trailing term dropped
}

func TestMatcherAccepts(t *testing.T) {
	for _, p := range good {
		if !NewMatcher(FromToks(toks(p.in)), p.df).Match(p.tree) {
			t.Errorf("no derivation found for %q -> %#v", p.in, p.tree)
		}
	}
}

func TestMatcherRejects(t *testing.T) {
	for _, p := range bad {
		if NewMatcher(FromToks(toks(p.in)), p.df).Match(p.tree) {
			t.Errorf("derivation found for %q -> %#v", p.in, p.tree)
		}
	}
}

func TestDecode(t *testing.T) {
	for in, want := range map[string]gen.Val{
		"a":     {K: gen.VWord, S: "a"},
		`x\:y`:  {K: gen.VWord, S: "x:y"},
		`a\\b`:  {K: gen.VWord, S: `a\b`},
		`b\*`:   {K: gen.VWord, S: "b*"},
		"5":     {K: gen.VInt, I: 5},
		"-3":    {K: gen.VInt, I: -3},
		"1.5":   {K: gen.VFloat, F: 1.5},
		`"q r"`: {K: gen.VQuoted, S: "q r"},
		`""`:    {K: gen.VQuoted, S: ""},
		"w*":    {K: gen.VWild, S: "w*"},
		"/r x/": {K: gen.VRegexp, S: "/r x/"},
		"1_000": {K: gen.VFloat, F: 1000},
	} {
		d := Decode(in)
		if !d.Known || d.Val.K != want.K || d.Val.S != want.S || d.Val.I != want.I || d.Val.F != want.F {
			t.Errorf("Decode(%q) = %+v, want %+v", in, d, want)
		}
	}
	if d := Decode(`a\\*`); d.Known || !d.KindOnly {
		t.Errorf("escaped backslash followed by a live wildcard must be kind-only, got %+v", d)
	}
	for _, in := range []string{"'s'", ""} {
		if Decode(in).Known {
			t.Errorf("Decode(%q) should be unknown", in)
		}
	}
}

func TestShape(t *testing.T) {
	ok := []*expr.Expression{expr.Eq("a", 1), expr.IN("a", expr.LIST(expr.Lit(1), expr.Lit("x"))), expr.Rang("a", "*", 5, true), expr.NOT(expr.LIKE("a", expr.WILD("b*")))}
	for _, e := range ok {
		if err := Shape(e, ShapeOpts{}); err != nil {
			t.Errorf("%#v: %v", e, err)
		}
	}
	r := expr.Rang("a", 1, 5, true)
	r.Right.(*expr.RangeBoundary).Min = expr.AND("b", "c")
	bad := []*expr.Expression{r, expr.IN("a", expr.LIST(expr.Lit(1))), expr.LIST(expr.Lit(1), expr.Lit(2)), {Op: expr.Not}, {Op: expr.And, Left: expr.Lit("a")}}
	for _, e := range bad {
		if err := Shape(e, ShapeOpts{}); err == nil {
			t.Errorf("%#v accepted", e)
		}
	}
}

func TestSimilarAndWild(t *testing.T) {
	for _, c := range []struct {
		p, s string
		want bool
	}{{"b%", "bar", true}, {"b_z", "baz", true}, {"b_z", "bz", false}, {`a\_b%`, "a_bx", true}, {`a\_b%`, "aQbx", false}, {"a.b", "aXb", false}, {"%(b|d)%", "xdx", true}} {
		got, err := SimilarMatch(c.p, c.s)
		if err != nil || got != c.want {
			t.Errorf("SimilarMatch(%q,%q)=%v,%v", c.p, c.s, got, err)
		}
	}
	if !WildMatch("b?z*", "bazzz") || WildMatch("b?z", "bz") || WildMatch("a_b*", "aQb") || !WildMatch("a.b", "a.b") || WildMatch("a.b", "aXb") {
		t.Errorf("WildMatch")
	}
}
