package model

import (
	"fmt"
	"math/big"
	"regexp"
	"strings"
	"sync"

	"github.com/grindlemire/go-lucene/verif/gen"
)

// Value is a non-NULL SQL value of the fragment: a number (exact) or a string.
type Value struct {
	IsNum bool
	Num   *big.Rat
	Str   string
}

// Num makes a numeric value from decimal text.
func Num(text string) (Value, error) {
	r, ok := new(big.Rat).SetString(text)
	if !ok {
		return Value{}, fmt.Errorf("not a number: %q", text)
	}
	return Value{IsNum: true, Num: r}, nil
}

// NumI makes a numeric value from an int.
func NumI(i int64) Value { return Value{IsNum: true, Num: new(big.Rat).SetInt64(i)} }

// Str makes a string value.
func Str(s string) Value { return Value{Str: s} }

func (v Value) String() string {
	if v.IsNum {
		return v.Num.RatString()
	}
	return fmt.Sprintf("%q", v.Str)
}

// FromVal converts a generated plain value.
func FromVal(v *gen.Val) Value {
	switch v.K {
	case gen.VInt:
		return NumI(int64(v.I))
	case gen.VFloat:
		n, err := Num(v.Src)
		if err != nil {
			panic(err)
		}
		return n
	default:
		return Str(v.S)
	}
}

// Compare orders two values of the same kind: numbers numerically, strings
// byte-wise. Mixed kinds are a type error.
func Compare(a, b Value) (int, error) {
	if a.IsNum != b.IsNum {
		return 0, fmt.Errorf("type mismatch: %v vs %v", a, b)
	}
	if a.IsNum {
		return a.Num.Cmp(b.Num), nil
	}
	return strings.Compare(a.Str, b.Str), nil
}

// WildMatch is the query-side meaning of a wildcard pattern: * matches any run of
// characters, ? exactly one character, everything else itself.
func WildMatch(pattern, s string) bool {
	var b strings.Builder
	b.WriteString(`^(?s:`)
	esc := false
	for _, r := range pattern {
		switch {
		case esc: // a backslash before a character denotes that character
			esc = false
			b.WriteString(regexp.QuoteMeta(string(r)))
		case r == '\\':
			esc = true
		case r == '*':
			b.WriteString(`.*`)
		case r == '?':
			b.WriteString(`.`)
		default:
			b.WriteString(regexp.QuoteMeta(string(r)))
		}
	}
	b.WriteString(`)$`)
	return compiled(b.String()).MatchString(s)
}

var (
	reMu    sync.Mutex
	reCache = map[string]*regexp.Regexp{}
)

func compiled(src string) *regexp.Regexp {
	re, err := compiledErr(src)
	if err != nil {
		panic(err)
	}
	return re
}

func compiledErr(src string) (*regexp.Regexp, error) {
	reMu.Lock()
	defer reMu.Unlock()
	if re, ok := reCache[src]; ok {
		if re == nil {
			return nil, fmt.Errorf("invalid regexp %q", src)
		}
		return re, nil
	}
	if len(reCache) > 50000 {
		reCache = map[string]*regexp.Regexp{}
	}
	re, err := regexp.Compile(src)
	if err != nil {
		reCache[src] = nil
		return nil, err
	}
	reCache[src] = re
	return re, nil
}

// SimilarMatch is PostgreSQL's SIMILAR TO (similar_to_escape with the default
// escape character): % any string, _ any one character, | * + ? ( ) { } [ ] keep
// their regular-expression meaning, \c is the literal c, everything else is
// literal; the match is anchored at both ends.
func SimilarMatch(pattern, s string) (bool, error) {
	var b strings.Builder
	b.WriteString(`^(?s:`)
	rs := []rune(pattern)
	inBracket := false
	for i := 0; i < len(rs); i++ {
		r := rs[i]
		if r == '\\' {
			if i+1 < len(rs) {
				i++
				b.WriteString(regexp.QuoteMeta(string(rs[i])))
			} else {
				return false, fmt.Errorf("pattern ends in escape")
			}
			continue
		}
		if inBracket {
			if r == ']' {
				inBracket = false
			}
			b.WriteRune(r)
			continue
		}
		switch r {
		case '[':
			inBracket = true
			b.WriteRune(r)
		case '%':
			b.WriteString(`.*`)
		case '_':
			b.WriteString(`.`)
		case '|', '*', '+', '?', '(', ')', '{', '}':
			b.WriteRune(r)
		default:
			b.WriteString(regexp.QuoteMeta(string(r)))
		}
	}
	b.WriteString(`)$`)
	re, err := compiledErr(b.String())
	if err != nil {
		return false, fmt.Errorf("invalid SIMILAR TO pattern %q: %v", pattern, err)
	}
	return re.MatchString(s), nil
}
