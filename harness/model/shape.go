package model

import (
	"fmt"

	"github.com/grindlemire/go-lucene/pkg/lucene/expr"
)

// ShapeOpts relaxes the two "kind" clauses for trees that went through the JSON
// decoder (C12 lists exactly these re-typings as allowed).
type ShapeOpts struct {
	AllowRetypedLeaves bool
}

func isLeafOp(op expr.Operator) bool {
	return op == expr.Literal || op == expr.Wild || op == expr.Regexp
}

func leafOK(e *expr.Expression, allowColumn bool) error {
	if e == nil {
		return fmt.Errorf("nil leaf")
	}
	if !isLeafOp(e.Op) {
		return fmt.Errorf("expected a single term, found operator %v", e.Op)
	}
	if e.Right != nil {
		return fmt.Errorf("leaf with a right side")
	}
	switch v := e.Left.(type) {
	case string, int, float64:
	case expr.Column:
		if !allowColumn {
			return fmt.Errorf("column %q in value position", string(v))
		}
	default:
		return fmt.Errorf("leaf holds %T", e.Left)
	}
	return nil
}

// Shape is the independent well-formedness predicate M3. It also enters range
// boundaries and list elements, which the package's own Validate does not.
func Shape(e *expr.Expression, o ShapeOpts) error {
	if e == nil {
		return fmt.Errorf("nil expression")
	}
	sub := func(x any, what string) (*expr.Expression, error) {
		c, ok := x.(*expr.Expression)
		if !ok || c == nil {
			return nil, fmt.Errorf("%v: %s is %T, want expression", e.Op, what, x)
		}
		return c, nil
	}
	field := func() error {
		l, err := sub(e.Left, "field")
		if err != nil {
			return err
		}
		if err := leafOK(l, true); err != nil {
			return fmt.Errorf("%v: field position: %v", e.Op, err)
		}
		return nil
	}
	switch e.Op {
	case expr.Literal, expr.Wild, expr.Regexp:
		return leafOK(e, false)
	case expr.And, expr.Or:
		l, err := sub(e.Left, "left")
		if err != nil {
			return err
		}
		r, err := sub(e.Right, "right")
		if err != nil {
			return err
		}
		if err := Shape(l, o); err != nil {
			return err
		}
		return Shape(r, o)
	case expr.Not, expr.Must, expr.MustNot, expr.Boost, expr.Fuzzy:
		if e.Right != nil {
			return fmt.Errorf("%v: unary operator with a right side", e.Op)
		}
		l, err := sub(e.Left, "operand")
		if err != nil {
			return err
		}
		return Shape(l, o)
	case expr.Equals, expr.Like, expr.Greater, expr.Less, expr.GreaterEq, expr.LessEq:
		if err := field(); err != nil {
			return err
		}
		r, err := sub(e.Right, "value")
		if err != nil {
			return err
		}
		if e.Op == expr.Like && r.Op != expr.Wild && r.Op != expr.Regexp {
			return fmt.Errorf("LIKE without a pattern on the right (%v)", r.Op)
		}
		return Shape(r, o)
	case expr.Range:
		if err := field(); err != nil {
			return err
		}
		b, ok := e.Right.(*expr.RangeBoundary)
		if !ok || b == nil {
			return fmt.Errorf("RANGE: right side is %T", e.Right)
		}
		for _, side := range []any{b.Min, b.Max} {
			x, ok := side.(*expr.Expression)
			if !ok || x == nil {
				return fmt.Errorf("RANGE: bound is %T", side)
			}
			if err := leafOK(x, false); err != nil {
				return fmt.Errorf("RANGE bound: %v", err)
			}
		}
		return nil
	case expr.In:
		if err := field(); err != nil {
			return err
		}
		r, err := sub(e.Right, "list")
		if err != nil {
			return err
		}
		if r.Op != expr.List {
			return fmt.Errorf("IN: right side is %v", r.Op)
		}
		items, ok := r.Left.([]*expr.Expression)
		if !ok {
			return fmt.Errorf("LIST holds %T", r.Left)
		}
		if len(items) < 2 {
			return fmt.Errorf("LIST with %d values", len(items))
		}
		if r.Right != nil {
			return fmt.Errorf("LIST with a right side")
		}
		for _, it := range items {
			if err := leafOK(it, false); err != nil {
				return fmt.Errorf("LIST element: %v", err)
			}
			if it.Op != expr.Literal && !o.AllowRetypedLeaves {
				return fmt.Errorf("LIST element is a pattern")
			}
		}
		return nil
	case expr.List:
		return fmt.Errorf("LIST outside IN")
	}
	return fmt.Errorf("operator %d not allowed", int(e.Op))
}
