package model

import (
	"fmt"

	"github.com/grindlemire/go-lucene/verif/gen"
)

// Row assigns a non-NULL value to each field.
type Row map[string]Value

// EvalQuery is the query-meaning model M4 for the filterable fragment, written
// from the property text: equality and order are numeric on numbers and byte-wise
// on strings; [a TO b] is a <= x <= b, {a TO b} is a < x < b, * is unbounded; a
// list is membership; * and ? in a pattern match any run / any one character;
// +x is x, -x and NOT x are not-x.
func EvalQuery(n *gen.Node, row Row) (bool, error) {
	switch n.K {
	case gen.NAnd, gen.NOr:
		l, err := EvalQuery(n.L, row)
		if err != nil {
			return false, err
		}
		r, err := EvalQuery(n.R, row)
		if err != nil {
			return false, err
		}
		if n.K == gen.NAnd {
			return l && r, nil
		}
		return l || r, nil
	case gen.NNot, gen.NMustNot:
		v, err := EvalQuery(n.L, row)
		return !v, err
	case gen.NMust:
		return EvalQuery(n.L, row)
	}
	if n.Field == nil {
		return false, fmt.Errorf("node %v is outside the filterable fragment", n.K)
	}
	x, ok := row[n.Field.S]
	if !ok {
		return false, fmt.Errorf("row has no field %q", n.Field.S)
	}
	cmp := func(v *gen.Val) (int, error) { return Compare(x, FromVal(v)) }
	switch n.K {
	case gen.NField:
		if n.V.K == gen.VWild {
			if x.IsNum {
				return false, fmt.Errorf("pattern on numeric field")
			}
			return WildMatch(n.V.S, x.Str), nil
		}
		if !n.V.IsPlain() {
			return false, fmt.Errorf("regexp is outside the fragment")
		}
		c, err := cmp(n.V)
		return c == 0, err
	case gen.NCmp:
		c, err := cmp(n.V)
		if err != nil {
			return false, err
		}
		switch n.Cmp {
		case ">":
			return c > 0, nil
		case ">=":
			return c >= 0, nil
		case "<":
			return c < 0, nil
		default:
			return c <= 0, nil
		}
	case gen.NRange:
		ok := true
		if n.Lo != nil {
			c, err := cmp(n.Lo)
			if err != nil {
				return false, err
			}
			if n.IncLo {
				ok = ok && c >= 0
			} else {
				ok = ok && c > 0
			}
		}
		if n.Hi != nil {
			c, err := cmp(n.Hi)
			if err != nil {
				return false, err
			}
			if n.IncHi {
				ok = ok && c <= 0
			} else {
				ok = ok && c < 0
			}
		}
		return ok, nil
	case gen.NList:
		for _, v := range n.Vals {
			if FromVal(v).IsNum != x.IsNum {
				return false, fmt.Errorf("list element type mismatch")
			}
			if c, _ := cmp(v); c == 0 {
				return true, nil
			}
		}
		return false, nil
	}
	return false, fmt.Errorf("node %v is outside the filterable fragment", n.K)
}
