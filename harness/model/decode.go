// Package model holds the reference models (oracles) of the harness. None of them
// calls the lexer, the parser or the renderers.
package model

import (
	"math"
	"strconv"
	"strings"

	"github.com/grindlemire/go-lucene/verif/gen"
)

// Decoded is what a term token denotes according to the documented syntax (M1).
type Decoded struct {
	Known bool // false: the documentation is silent; only the position is checked
	// KindOnly: the token is a wildcard pattern (an unescaped * or ? occurs) but,
	// because it also contains escapes, its exact text is undocumented.
	KindOnly bool
	// AltString: the token may also legitimately denote the plain string S
	// (non-finite "numbers" such as NaN / Inf).
	AltString bool
	Val       gen.Val
}

// Decode is the value-decoding specification M1.
func Decode(text string) Decoded {
	if text == "" {
		return Decoded{}
	}
	switch text[0] {
	case '"':
		if len(text) >= 2 && text[len(text)-1] == '"' && !strings.Contains(text[1:len(text)-1], `"`) {
			return Decoded{Known: true, Val: gen.Val{K: gen.VQuoted, Src: text, S: text[1 : len(text)-1]}}
		}
		return Decoded{}
	case '\'':
		return Decoded{} // the repository pins that single quotes are kept; undocumented
	case '/':
		if len(text) >= 2 && text[len(text)-1] == '/' {
			return Decoded{Known: true, Val: gen.Val{K: gen.VRegexp, Src: text, S: text}}
		}
		return Decoded{}
	}
	if i, err := strconv.Atoi(text); err == nil {
		return Decoded{Known: true, Val: gen.Val{K: gen.VInt, Src: text, I: i}}
	}
	if f, err := strconv.ParseFloat(text, 64); err == nil {
		if math.IsNaN(f) || math.IsInf(f, 0) {
			return Decoded{Known: true, AltString: true, Val: gen.Val{K: gen.VFloat, Src: text, F: f, S: text}}
		}
		return Decoded{Known: true, Val: gen.Val{K: gen.VFloat, Src: text, F: f}}
	}
	// one level of backslash escapes; remember whether an unescaped wildcard occurs
	var b strings.Builder
	wild, escaped := false, false
	rs := []rune(text)
	for i := 0; i < len(rs); i++ {
		if rs[i] == '\\' {
			escaped = true
			if i+1 < len(rs) {
				i++
				b.WriteRune(rs[i])
			}
			continue
		}
		if rs[i] == '*' || rs[i] == '?' {
			wild = true
		}
		b.WriteRune(rs[i])
	}
	if wild {
		if escaped {
			return Decoded{KindOnly: true, Val: gen.Val{K: gen.VWild, Src: text}} // escapes inside patterns: only the kind is documented
		}
		return Decoded{Known: true, Val: gen.Val{K: gen.VWild, Src: text, S: text}}
	}
	return Decoded{Known: true, Val: gen.Val{K: gen.VWord, Src: text, S: b.String()}}
}
