module github.com/grindlemire/go-lucene/verif

go 1.23

toolchain go1.23.5

require (
	github.com/grindlemire/go-lucene v0.0.14
	github.com/pganalyze/pg_query_go/v4 v4.2.3
	pgregory.net/rapid v1.3.0
)

require (
	github.com/golang/protobuf v1.4.2 // indirect
	google.golang.org/protobuf v1.23.0 // indirect
)

replace github.com/grindlemire/go-lucene => /repo
