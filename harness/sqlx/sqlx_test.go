package sqlx

import (
	"testing"

	"github.com/grindlemire/go-lucene/verif/model"
)

func TestParseWhereAccepts(t *testing.T) {
	for _, s := range []string{
		`"a" = 'b'`, `("a" = 5) AND (NOT("b" <= -20))`, `"a" IN ('x', 'y', 3)`, `"a" BETWEEN 'foo' AND 'bar'`,
		`"a" SIMILAR TO 'b%'`, `"a" ~ '/b [c]/'`, `"a" >= 1.10 AND "a" <= 10.00`, `'a' AND 'b'`, `"a" = $1`, `"it''s" = 'x'''`,
	} {
		if _, err := ParseWhere(s); err != nil {
			t.Errorf("%s: %v", s, err)
		}
	}
}

func TestParseWhereRefuses(t *testing.T) {
	for _, s := range []string{
		`"a" = 'b') OR (1=1`, `"a" = 'b'; DROP TABLE t; --`, `"a" = 'b' -- x`, `"a" = (SELECT 1)`, `"a"::text = 'b'`, `lower("a") = 'b'`,
		`"a" = +Inf`, `"a" IS NULL`, `"a" = TRUE`, `t."a" = 1`, `"a" = 'b') UNION SELECT 1 FROM t WHERE (1=1`, `"a" LIKE 'b'`,
		`"a" = 'b' /* c */`, "\"a\" = 'b\x00'", `"a" NOT IN (1)`, `- "a" = 1`, `"a" = 1 ORDER BY 1`,
	} {
		if e, err := ParseWhere(s); err == nil {
			t.Errorf("%s: accepted as %v", s, e)
		}
	}
}

func TestRebind(t *testing.T) {
	s, n := Rebind(`"a?" = ? AND "b" = '?' AND "c" = ? AND 'it''s ?' = ?`)
	if n != 3 || s != `"a?" = $1 AND "b" = '?' AND "c" = $2 AND 'it''s ?' = $3` {
		t.Fatalf("%d %s", n, s)
	}
}

func TestEval(t *testing.T) {
	e, err := ParseWhere(`("a" >= 1.5 AND "a" < 3) OR "s" SIMILAR TO 'b_z%' OR "s" IN ('q', 'r')`)
	if err != nil {
		t.Fatal(err)
	}
	n := func(s string) model.Value { v, _ := model.Num(s); return v }
	for _, tc := range []struct {
		a, s string
		want bool
	}{{"1.5", "x", true}, {"3", "x", false}, {"0", "bazzz", true}, {"0", "bz", false}, {"0", "r", true}} {
		got, err := e.Eval(model.Row{"a": n(tc.a), "s": model.Str(tc.s)})
		if err != nil || got != tc.want {
			t.Errorf("%v: got %v %v", tc, got, err)
		}
	}
	if _, err := e.Eval(model.Row{"a": model.Str("x"), "s": model.Str("y")}); err == nil {
		t.Errorf("type mismatch not reported")
	}
}
