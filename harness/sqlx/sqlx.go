// Package sqlx is the SQL front end of the harness: PostgreSQL's own grammar
// (libpg_query through pg_query_go) turns rendered text back into a tree, which is
// converted into a small whitelisted expression type and can be evaluated on rows.
package sqlx

import (
	"fmt"
	"regexp"
	"strings"
	"unicode/utf8"

	"github.com/grindlemire/go-lucene/verif/model"
	pg_query "github.com/pganalyze/pg_query_go/v4"
)

// Kind of a whitelisted SQL expression node.
type Kind int

// node kinds
const (
	KAnd Kind = iota
	KOr
	KNot
	KCmp     // Op in = < <= > >=
	KBetween // Args: x, lo, hi
	KIn      // Args: x, items...
	KSimilar // Args: x, pattern
	KRegex   // Args: x, pattern   (operator ~)
	KCol
	KConst
	KParam
)

// Expr is a whitelisted SQL expression.
type Expr struct {
	K       Kind
	Op      string
	Args    []*Expr
	Name    string      // KCol
	Val     model.Value // KConst
	IsFloat bool        // KConst: written with float syntax
	Raw     string      // KConst: text as PostgreSQL's scanner delivered it
	N       int         // KParam: 1-based
}

// Rebind rewrites ? placeholders outside quoted identifiers and string constants
// to $1, $2, ... and returns their number.
func Rebind(sql string) (string, int) {
	var b strings.Builder
	n := 0
	inS, inD := false, false
	for i := 0; i < len(sql); i++ {
		c := sql[i]
		switch {
		case inS:
			if c == '\'' {
				if i+1 < len(sql) && sql[i+1] == '\'' {
					b.WriteByte(c)
					i++
				} else {
					inS = false
				}
			}
		case inD:
			if c == '"' {
				if i+1 < len(sql) && sql[i+1] == '"' {
					b.WriteByte(c)
					i++
				} else {
					inD = false
				}
			}
		case c == '\'':
			inS = true
		case c == '"':
			inD = true
		case c == '?':
			n++
			fmt.Fprintf(&b, "$%d", n)
			continue
		}
		b.WriteByte(c)
	}
	return b.String(), n
}

// Statement wraps a rendered filter the way a caller would.
func Statement(filter string) string { return "SELECT 1 FROM t WHERE (" + filter + ")" }

// ParseWhere parses `SELECT 1 FROM t WHERE (<filter>)` with PostgreSQL's grammar,
// checks that the result is exactly that one statement with only the WHERE
// expression filled in, and returns the whitelisted WHERE expression.
func ParseWhere(filter string) (*Expr, error) {
	if !utf8.ValidString(filter) {
		return nil, fmt.Errorf("SQL text is not valid UTF-8")
	}
	if strings.ContainsRune(filter, 0) {
		return nil, fmt.Errorf("SQL text contains a NUL byte")
	}
	// PostgreSQL's own scanner: no comments, no statement separators, and the
	// filter's parentheses must balance without ever closing the enclosing pair
	// (parentheses leave no node in the tree, so a filter like `a) OR (b` would
	// otherwise go unnoticed)
	sc, err := pg_query.Scan(filter)
	if err != nil {
		return nil, fmt.Errorf("PostgreSQL's scanner rejects the filter: %v", err)
	}
	depth := 0
	for _, tk := range sc.Tokens {
		switch tk.Token {
		case pg_query.Token_SQL_COMMENT, pg_query.Token_C_COMMENT:
			return nil, fmt.Errorf("the filter contains a comment")
		case pg_query.Token_ASCII_59:
			return nil, fmt.Errorf("the filter contains a statement separator")
		case pg_query.Token_ASCII_40:
			depth++
		case pg_query.Token_ASCII_41:
			depth--
			if depth < 0 {
				return nil, fmt.Errorf("the filter closes a parenthesis it did not open")
			}
		}
	}
	if depth != 0 {
		return nil, fmt.Errorf("the filter leaves a parenthesis open")
	}
	res, err := pg_query.Parse(Statement(filter))
	if err != nil {
		return nil, fmt.Errorf("PostgreSQL rejects the statement: %v", err)
	}
	if len(res.Stmts) != 1 {
		return nil, fmt.Errorf("%d statements instead of one", len(res.Stmts))
	}
	sel := res.Stmts[0].GetStmt().GetSelectStmt()
	if sel == nil {
		return nil, fmt.Errorf("not a SELECT statement")
	}
	if len(sel.DistinctClause) != 0 || sel.IntoClause != nil || len(sel.GroupClause) != 0 || sel.GroupDistinct || sel.HavingClause != nil ||
		len(sel.WindowClause) != 0 || len(sel.ValuesLists) != 0 || len(sel.SortClause) != 0 || sel.LimitOffset != nil || sel.LimitCount != nil ||
		len(sel.LockingClause) != 0 || sel.WithClause != nil || sel.Op != pg_query.SetOperation_SETOP_NONE || sel.All || sel.Larg != nil || sel.Rarg != nil {
		return nil, fmt.Errorf("the statement has clauses besides SELECT 1 FROM t WHERE")
	}
	if len(sel.TargetList) != 1 || len(sel.FromClause) != 1 {
		return nil, fmt.Errorf("target list / FROM clause changed")
	}
	rt := sel.TargetList[0].GetResTarget()
	if rt == nil || rt.Name != "" || len(rt.Indirection) != 0 || rt.Val.GetAConst() == nil || rt.Val.GetAConst().GetIval() == nil || rt.Val.GetAConst().GetIval().Ival != 1 {
		return nil, fmt.Errorf("target list is not the constant 1")
	}
	rv := sel.FromClause[0].GetRangeVar()
	if rv == nil || rv.Relname != "t" || rv.Schemaname != "" || rv.Catalogname != "" || rv.Alias != nil {
		return nil, fmt.Errorf("FROM is not the single relation t")
	}
	if sel.WhereClause == nil {
		return nil, fmt.Errorf("no WHERE clause")
	}
	return convert(sel.WhereClause)
}

func opName(names []*pg_query.Node) (string, error) {
	if len(names) != 1 || names[0].GetString_() == nil {
		return "", fmt.Errorf("qualified operator name")
	}
	return names[0].GetString_().Sval, nil
}

func convertList(n *pg_query.Node) ([]*Expr, error) {
	l := n.GetList()
	if l == nil {
		return nil, fmt.Errorf("expected a list, found %T", n.GetNode())
	}
	var out []*Expr
	for _, it := range l.Items {
		e, err := convert(it)
		if err != nil {
			return nil, err
		}
		out = append(out, e)
	}
	return out, nil
}

var floatRe = regexp.MustCompile(`^-?(\d+\.?\d*|\.\d+)([eE][-+]?\d+)?$`)

// convert is the whitelist walk: anything but AND/OR/NOT, the six comparison
// operators, BETWEEN, IN, SIMILAR TO, ~, plain column references, integer / float /
// string constants and parameters is refused.
func convert(n *pg_query.Node) (*Expr, error) {
	if n == nil {
		return nil, fmt.Errorf("missing operand")
	}
	switch v := n.GetNode().(type) {
	case *pg_query.Node_BoolExpr:
		be := v.BoolExpr
		var args []*Expr
		for _, a := range be.Args {
			e, err := convert(a)
			if err != nil {
				return nil, err
			}
			args = append(args, e)
		}
		switch be.Boolop {
		case pg_query.BoolExprType_AND_EXPR:
			return &Expr{K: KAnd, Args: args}, nil
		case pg_query.BoolExprType_OR_EXPR:
			return &Expr{K: KOr, Args: args}, nil
		case pg_query.BoolExprType_NOT_EXPR:
			if len(args) != 1 {
				return nil, fmt.Errorf("NOT with %d operands", len(args))
			}
			return &Expr{K: KNot, Args: args}, nil
		}
		return nil, fmt.Errorf("unknown boolean operator")
	case *pg_query.Node_AExpr:
		ae := v.AExpr
		name, err := opName(ae.Name)
		if err != nil {
			return nil, err
		}
		switch ae.Kind {
		case pg_query.A_Expr_Kind_AEXPR_OP:
			if ae.Lexpr == nil || ae.Rexpr == nil {
				return nil, fmt.Errorf("unary operator %s", name)
			}
			l, err := convert(ae.Lexpr)
			if err != nil {
				return nil, err
			}
			r, err := convert(ae.Rexpr)
			if err != nil {
				return nil, err
			}
			switch name {
			case "=", "<", "<=", ">", ">=":
				return &Expr{K: KCmp, Op: name, Args: []*Expr{l, r}}, nil
			case "~":
				return &Expr{K: KRegex, Args: []*Expr{l, r}}, nil
			}
			return nil, fmt.Errorf("operator %s is not allowed", name)
		case pg_query.A_Expr_Kind_AEXPR_IN:
			if name != "=" {
				return nil, fmt.Errorf("NOT IN / operator %s", name)
			}
			l, err := convert(ae.Lexpr)
			if err != nil {
				return nil, err
			}
			items, err := convertList(ae.Rexpr)
			if err != nil {
				return nil, err
			}
			return &Expr{K: KIn, Args: append([]*Expr{l}, items...)}, nil
		case pg_query.A_Expr_Kind_AEXPR_BETWEEN:
			l, err := convert(ae.Lexpr)
			if err != nil {
				return nil, err
			}
			items, err := convertList(ae.Rexpr)
			if err != nil || len(items) != 2 {
				return nil, fmt.Errorf("BETWEEN without two bounds: %v", err)
			}
			return &Expr{K: KBetween, Args: []*Expr{l, items[0], items[1]}}, nil
		case pg_query.A_Expr_Kind_AEXPR_SIMILAR:
			if name != "~" {
				return nil, fmt.Errorf("NOT SIMILAR TO")
			}
			l, err := convert(ae.Lexpr)
			if err != nil {
				return nil, err
			}
			fc := ae.Rexpr.GetFuncCall()
			if fc == nil || len(fc.Funcname) != 2 || fc.Funcname[0].GetString_().GetSval() != "pg_catalog" || fc.Funcname[1].GetString_().GetSval() != "similar_to_escape" ||
				len(fc.Args) != 1 || fc.AggOrder != nil || fc.AggFilter != nil || fc.Over != nil || fc.AggStar || fc.AggDistinct || fc.FuncVariadic {
				return nil, fmt.Errorf("SIMILAR TO with something other than the grammar's own similar_to_escape(<pattern>)")
			}
			p, err := convert(fc.Args[0])
			if err != nil {
				return nil, err
			}
			if p.K != KConst && p.K != KParam {
				return nil, fmt.Errorf("SIMILAR TO pattern is not a constant or parameter")
			}
			return &Expr{K: KSimilar, Args: []*Expr{l, p}}, nil
		}
		return nil, fmt.Errorf("expression kind %v is not allowed", ae.Kind)
	case *pg_query.Node_ColumnRef:
		f := v.ColumnRef.Fields
		if len(f) != 1 || f[0].GetString_() == nil {
			return nil, fmt.Errorf("column reference with %d parts / star", len(f))
		}
		return &Expr{K: KCol, Name: f[0].GetString_().Sval}, nil
	case *pg_query.Node_AConst:
		c := v.AConst
		if c.Isnull {
			return nil, fmt.Errorf("NULL constant")
		}
		switch x := c.Val.(type) {
		case *pg_query.A_Const_Ival:
			return &Expr{K: KConst, Val: model.NumI(int64(x.Ival.Ival)), Raw: fmt.Sprint(x.Ival.Ival)}, nil
		case *pg_query.A_Const_Fval:
			if !floatRe.MatchString(x.Fval.Fval) {
				return nil, fmt.Errorf("float constant %q", x.Fval.Fval)
			}
			nv, err := model.Num(x.Fval.Fval)
			if err != nil {
				return nil, err
			}
			return &Expr{K: KConst, Val: nv, IsFloat: true, Raw: x.Fval.Fval}, nil
		case *pg_query.A_Const_Sval:
			return &Expr{K: KConst, Val: model.Str(x.Sval.Sval), Raw: x.Sval.Sval}, nil
		}
		return nil, fmt.Errorf("constant of kind %T is not allowed", c.Val)
	case *pg_query.Node_ParamRef:
		return &Expr{K: KParam, N: int(v.ParamRef.Number)}, nil
	}
	return nil, fmt.Errorf("SQL construct %T is not allowed", n.GetNode())
}

// Walk visits every node.
func (e *Expr) Walk(fn func(*Expr)) {
	fn(e)
	for _, a := range e.Args {
		a.Walk(fn)
	}
}

// Subst returns a copy with every parameter replaced by a constant.
func (e *Expr) Subst(params []model.Value) (*Expr, error) {
	c := *e
	if e.K == KParam {
		if e.N < 1 || e.N > len(params) {
			return nil, fmt.Errorf("parameter $%d out of range", e.N)
		}
		return &Expr{K: KConst, Val: params[e.N-1]}, nil
	}
	c.Args = nil
	for _, a := range e.Args {
		s, err := a.Subst(params)
		if err != nil {
			return nil, err
		}
		c.Args = append(c.Args, s)
	}
	return &c, nil
}

func (e *Expr) value(row model.Row) (model.Value, error) {
	switch e.K {
	case KCol:
		v, ok := row[e.Name]
		if !ok {
			return model.Value{}, fmt.Errorf("unknown column %q", e.Name)
		}
		return v, nil
	case KConst:
		return e.Val, nil
	case KParam:
		return model.Value{}, fmt.Errorf("unbound parameter $%d", e.N)
	}
	return model.Value{}, fmt.Errorf("boolean expression used as a value")
}

// Eval evaluates the predicate on a row of non-NULL values. Type mismatches are
// errors (PostgreSQL would refuse the query).
func (e *Expr) Eval(row model.Row) (bool, error) {
	switch e.K {
	case KAnd, KOr:
		res := e.K == KAnd
		for _, a := range e.Args {
			v, err := a.Eval(row)
			if err != nil {
				return false, err
			}
			if e.K == KAnd {
				res = res && v
			} else {
				res = res || v
			}
		}
		return res, nil
	case KNot:
		v, err := e.Args[0].Eval(row)
		return !v, err
	case KCmp:
		a, err := e.Args[0].value(row)
		if err != nil {
			return false, err
		}
		b, err := e.Args[1].value(row)
		if err != nil {
			return false, err
		}
		c, err := model.Compare(a, b)
		if err != nil {
			return false, err
		}
		switch e.Op {
		case "=":
			return c == 0, nil
		case "<":
			return c < 0, nil
		case "<=":
			return c <= 0, nil
		case ">":
			return c > 0, nil
		default:
			return c >= 0, nil
		}
	case KBetween:
		x, err := e.Args[0].value(row)
		if err != nil {
			return false, err
		}
		lo, err := e.Args[1].value(row)
		if err != nil {
			return false, err
		}
		hi, err := e.Args[2].value(row)
		if err != nil {
			return false, err
		}
		c1, err := model.Compare(x, lo)
		if err != nil {
			return false, err
		}
		c2, err := model.Compare(x, hi)
		if err != nil {
			return false, err
		}
		return c1 >= 0 && c2 <= 0, nil
	case KIn:
		x, err := e.Args[0].value(row)
		if err != nil {
			return false, err
		}
		found := false
		for _, it := range e.Args[1:] {
			v, err := it.value(row)
			if err != nil {
				return false, err
			}
			c, err := model.Compare(x, v)
			if err != nil {
				return false, err
			}
			if c == 0 {
				found = true
			}
		}
		return found, nil
	case KSimilar, KRegex:
		x, err := e.Args[0].value(row)
		if err != nil {
			return false, err
		}
		p, err := e.Args[1].value(row)
		if err != nil {
			return false, err
		}
		if x.IsNum || p.IsNum {
			return false, fmt.Errorf("pattern match on a number")
		}
		if e.K == KSimilar {
			return model.SimilarMatch(p.Str, x.Str)
		}
		re, err := regexp.Compile(p.Str)
		if err != nil {
			return false, fmt.Errorf("regexp %q: %v", p.Str, err)
		}
		return re.MatchString(x.Str), nil
	}
	return false, fmt.Errorf("value used as a predicate")
}

// String prints the expression in a canonical fully parenthesised form.
func (e *Expr) String() string {
	switch e.K {
	case KAnd, KOr:
		var parts []string
		for _, a := range e.Args {
			parts = append(parts, a.String())
		}
		op := " AND "
		if e.K == KOr {
			op = " OR "
		}
		return "(" + strings.Join(parts, op) + ")"
	case KNot:
		return "NOT" + e.Args[0].String()
	case KCmp:
		return "(" + e.Args[0].String() + e.Op + e.Args[1].String() + ")"
	case KBetween:
		return "(" + e.Args[0].String() + " BETWEEN " + e.Args[1].String() + " AND " + e.Args[2].String() + ")"
	case KIn:
		var parts []string
		for _, a := range e.Args[1:] {
			parts = append(parts, a.String())
		}
		return "(" + e.Args[0].String() + " IN [" + strings.Join(parts, ",") + "])"
	case KSimilar:
		return "(" + e.Args[0].String() + " SIMILAR " + e.Args[1].String() + ")"
	case KRegex:
		return "(" + e.Args[0].String() + " ~ " + e.Args[1].String() + ")"
	case KCol:
		return "col:" + fmt.Sprintf("%q", e.Name)
	case KConst:
		return e.Val.String()
	case KParam:
		return fmt.Sprintf("$%d", e.N)
	}
	return "?"
}
