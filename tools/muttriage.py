#!/usr/bin/env python3
"""Classifies the mutants that no check killed (mutation/pass1.tsv + pass2.tsv) by rule
and writes mutation/triage.tsv. Rules are by source location and mutation kind; the
classes and the reasoning are in DESIGN.md section 8.2. Hand-made entries in
mutation/triage_manual.tsv (name <tab> class <tab> note) take precedence."""
import os
M = '/verif/mutation'
rows = {}
for fn in sorted(x for x in os.listdir(M) if x.startswith('pass') and x.endswith('.tsv')):
    p = os.path.join(M, fn)
    if os.path.exists(p):
        for l in open(p):
            f = (l.rstrip('\n').split('\t') + [''] * 7)[:7]
            if f[0] in rows and rows[f[0]][4].startswith('killed'):
                continue
            rows[f[0]] = f
manual = {}
if os.path.exists(M + '/triage_manual.tsv'):
    for l in open(M + '/triage_manual.tsv'):
        f = l.rstrip('\n').split('\t')
        if len(f) >= 2 and not l.startswith('#'):
            manual[f[0]] = (f[1], f[2] if len(f) > 2 else '')


def rule(name, file, line, kind):
    line = int(line)
    if file.endswith('lex.go'):
        if 88 <= line <= 118 or 20 <= line <= 30:
            return 'debug text', 'token type names / Token.String(), only seen in error messages'
        if line in (252, 254, 270, 274):
            return 'equivalent', 'a case of the phrase / regexp scanner whose body is empty: only the delimiter, the escape and the end of input matter'
    if file.endswith('renderer.go'):
        return 'print format', 'text of String() / %#v; no property fixes it (C12 "prints identically" and the C01 marker rule were run and hold)'
    if file.endswith('validator.go'):
        return 'validator guard', 'a Validate branch that neither Parse output nor decoded JSON reaches, or whose removal turns an error into a normal return (C13 only asks for no panic; C10 and C13 were run)'
    if file.endswith('renderfn.go') and 257 <= line <= 336:
        return 'dead code', 'constant-bound branches inside the parameterized range renderer: every bound is a placeholder there except for [* TO *] (open finding F18)'
    if file.endswith('operator.go'):
        return 'leaf operator names', 'JSON names of LITERAL / WILD / REGEXP: Parse output encodes leaves as scalars, the names only matter for hand-written leaf objects (C13: safety only)'
    if kind in ('int+1', 'int-1') and file.endswith(('renderfn.go', 'parse.go')) and line in (291, 404, 409):
        return 'equivalent', 'strconv.ParseFloat bit size 63 / 65 behaves like 64'
    return None


out = []
for name, r in sorted(rows.items()):
    if r[4] != 'survived':
        continue
    if name in manual:
        out.append((name, manual[name][0], manual[name][1]))
        continue
    c = rule(name, r[1], r[2], r[3])
    if c:
        out.append((name, c[0], c[1]))
with open(M + '/triage.tsv', 'w') as f:
    for o in out:
        f.write('\t'.join(o) + '\n')
left = [n for n, r in rows.items() if r[4] == 'survived' and n not in {o[0] for o in out}]
print(len(out), 'classified;', len(left), 'left:')
for n in sorted(left):
    print(' ', n, rows[n][1], rows[n][2], rows[n][3])
