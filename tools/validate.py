#!/usr/bin/env python3
import json, sys, glob, jsonschema
m = json.load(open('/verif/MANIFEST.json'))
jsonschema.validate(m, json.load(open('/root/.vp/MANIFEST.schema.json')))
es = json.load(open('/root/.vp/EVIDENCE.schema.json'))
bad = 0
for c in m['checks']:
    p = c['evidence_file']
    try:
        jsonschema.validate(json.load(open(p)), es)
    except Exception as e:
        bad += 1
        print("EVIDENCE INVALID", p, str(e)[:300])
print("manifest ok; evidence files invalid/missing:", bad)
