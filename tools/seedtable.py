#!/usr/bin/env python3
"""Rewrites section 7 of DESIGN.md (between the markers) from /verif/seeded/*/meta.json."""
import json, glob, os, re
rows = []
for d in sorted(glob.glob('/verif/seeded/*/meta.json')):
    m = json.load(open(d))
    name = os.path.basename(os.path.dirname(d))
    evs = m.get('evaluations', [])
    p = m['property']
    def det(ev):
        return {c: v.get('detected') for c, v in ev.get('checks', {}).items()}
    first = next((det(ev) for ev in evs if p in ev.get('checks', {})), {})
    last = {}
    for ev in evs:
        last.update({c: v for c, v in det(ev).items()})
    by = [c for c, v in last.items() if v]
    sub = ''
    for ev in reversed(evs):
        ch = ev.get('checks', {}).get(p)
        if ch and ch.get('detected'):
            for l in ch.get('lines', []):
                if 'sub-check:' in l:
                    sub = l.split('sub-check:')[1].strip()
                    break
            break
    summ = re.sub(r'\s+', ' ', m.get('summary', ''))[:170].replace('|', '/')
    needs = re.sub(r'\s+', ' ', m.get('needs', ''))[:150].replace('|', '/')
    if m.get('coverage_note'):
        needs = '**' + m['coverage_note'].replace('|', '/') + '**'
    full = [e for e in evs if 'suite_passes_with_change' in e]
    valid = full and full[-1].get('suite_passes_with_change') and full[-1].get('demo_fails_with_change') and full[-1].get('demo_passes_without_change')
    rows.append((name, p, 'yes' if valid else 'NO', 'yes' if first.get(p) else 'no', ', '.join(sorted(by)) or '-', sub, summ, needs))
out = ['| seeded change | property | confirmed (suite green, demo fails with / passes without) | caught at first run | caught now by | sub-check | what was changed | what it needs |', '|---|---|---|---|---|---|---|---|']
for r in rows:
    out.append('| ' + ' | '.join(r) + ' |')
n = len(rows); first = sum(1 for r in rows if r[3] == 'yes'); now = sum(1 for r in rows if r[4] != '-')
summary = '%d seeded changes; %d caught by the target property\'s quick check the first time it was run against them, %d caught after the strengthening described below.' % (n, first, now)
p = '/verif/DESIGN.md'
s = open(p).read()
a, b = '<!-- SEEDTABLE:BEGIN -->', '<!-- SEEDTABLE:END -->'
block = a + '\n' + summary + '\n\n' + '\n'.join(out) + '\n' + b
if a in s:
    s = s[:s.index(a)] + block + s[s.index(b) + len(b):]
else:
    s += '\n' + block + '\n'
open(p, 'w').write(s)
print(summary)
