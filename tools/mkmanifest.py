#!/usr/bin/env python3
"""Regenerates /verif/MANIFEST.json from the table below (kept in one place so that
the manifest stays valid while checks are added)."""
import json, os

ROOT = os.path.dirname(os.path.dirname(os.path.abspath(__file__)))

# id -> (technique, level text, level note, design ref)
CLAIMED = {}
NOT_YET = {}

def claim(pid, technique, text, note, ref):
    CLAIMED[pid] = (technique, text, note, ref)

exec(open(os.path.join(ROOT, "tools", "claims.py")).read())

ids = [json.loads(l)["id"] for l in open(os.path.join(ROOT, "properties.jsonl")) if l.strip()]
checks = []
na = []
for pid in ids:
    if pid in CLAIMED:
        tech, text, note, ref = CLAIMED[pid]
        checks.append({
            "property_id": pid,
            "quick_cmd": "./check %s quick" % pid,
            "thorough_cmd": "./check %s thorough" % pid,
            "evidence_file": "/verif/evidence/%s.json" % pid,
            "replay_cmd_template": "./check --replay {path}",
            "engine": "harness",
            "level_claimed": {"category": "exploration", "text": text, "design_ref": ref},
            "level_note": note,
            "technique": tech,
        })
    else:
        na.append({"property_id": pid, "reason": NOT_YET.get(pid, "check not built yet in this round; planned (see DESIGN.md section 4)")})

m = {
    "version": 1,
    "setup_cmd": "./check setup",
    "hooks": {
        "guard": "verif",
        "enable": "no hooks are needed: every observation point is public API (or internal/lex through a path-nested harness module); checks build /repo as it is",
        "baseline_off_cmd": "cd /repo && GOFLAGS= GOPROXY=off GOSUMDB=off GOTOOLCHAIN=local go test -vet=off -count=1 ./... && cd /repo/fuzz && GOFLAGS= GOPROXY=off GOSUMDB=off GOTOOLCHAIN=local go test -vet=off -count=1 ./...",
        "source_commits": [],
        "add_only": True,
    },
    "engines": [{
        "name": "harness",
        "path": "/verif/harness",
        "serves_properties": sorted(CLAIMED),
        "kind_free_text": "Go module (rapid v1.3.0 property-based generators + exhaustive bounded enumeration + Go native fuzz targets in the thorough tier); oracles: reference models written for this purpose, metamorphic pairs, PostgreSQL's own grammar through pg_query_go",
    }],
    "checks": checks,
    "not_applicable": na,
    "notes": "Runner: ./check <ID> quick|thorough; ./check --replay <file>. exit 0 held / 1 VIOLATION / 2 inconclusive. Known findings: /verif/known_findings.json (read-only at run time).",
}
json.dump(m, open(os.path.join(ROOT, "MANIFEST.json"), "w"), indent=1)
print("claimed:", sorted(CLAIMED), "not claimed:", [x["property_id"] for x in na])
