#!/usr/bin/env python3
"""Step 2 of the mutation-sensitivity experiment: run the quick checks against the
mutants that survive the repository's own tests (tools/mutsurvive.py).

  tools/mutkill.py [-j N] [-s survivors-dir] [-o results.tsv] [--all]

Each worker owns a sandbox /tmp/mut/k<i>/{repo,verif} (worktree of /repo's HEAD; copy of
the committed /verif with the harness pointed at that worktree). For every survivor the
checks most likely to notice it (by source file, see ORDER) run in turn until one exits 1
(= killed); with --all the remaining checks run too before a mutant is declared a
survivor. Result lines: name, file, line, kind, verdict (killed:<ID> / survived /
noapply), seconds, checks run. /repo is never touched.
"""
import os, subprocess, sys, shutil, threading, queue, time

VERIF = os.path.dirname(os.path.dirname(os.path.abspath(__file__)))
ALL = ["C%02d" % i for i in range(1, 17)]
ORDER = {
    "internal/lex/lex.go": ["C16", "C06", "C08", "C09", "C05", "C01"],
    "parse.go": ["C06", "C05", "C11", "C07", "C09", "C10", "C08", "C01"],
    "pkg/lucene/reduce/reduce.go": ["C06", "C05", "C07", "C10", "C11", "C09", "C01"],
    "pkg/driver/base.go": ["C02", "C04", "C15", "C03", "C08", "C14", "C13"],
    "pkg/driver/renderfn.go": ["C03", "C04", "C02", "C08", "C15", "C13"],
    "pkg/driver/postgresql.go": ["C02", "C03", "C04", "C15"],
    "pkg/lucene/expr/renderer.go": ["C12", "C01", "C06", "C13"],
    "pkg/lucene/expr/validator.go": ["C13", "C10", "C06", "C12"],
    "pkg/lucene/expr/expression.go": ["C12", "C13", "C06", "C10", "C01", "C03"],
    "pkg/lucene/expr/operator.go": ["C12", "C13", "C06", "C02"],
    "render.go": ["C14", "C02", "C04", "C11"],
}


def sh(cmd, cwd=None, timeout=None, env=None):
    return subprocess.run(cmd, cwd=cwd, env=env, stdout=subprocess.PIPE, stderr=subprocess.STDOUT, text=True, timeout=timeout)


def main():
    a = sys.argv[1:]
    j, surv, outp, every, only, second, forced = 8, "/tmp/mut/surv", "/tmp/mut/kill.tsv", False, None, None, None
    while a:
        x = a.pop(0)
        if x == "-j":
            j = int(a.pop(0))
        elif x == "-s":
            surv = a.pop(0)
        elif x == "-o":
            outp = a.pop(0)
        elif x == "--all":
            every = True
        elif x == "--only":
            only = set(a.pop(0).split(","))
        elif x == "--checks":
            # run exactly these checks (e.g. to re-run strengthened checks on earlier survivors)
            forced = a.pop(0).split(",")
        elif x == "--second":
            # second pass: survivors of a first pass (its result file), remaining checks only
            second = a.pop(0)
    done = set()
    if os.path.exists(outp):
        for l in open(outp):
            done.add(l.split("\t")[0])
    q = queue.Queue()
    pre = []
    already = {}
    if second:
        only = set()
        for l in open(second):
            f = l.rstrip("\n").split("\t")
            if f[4] == "survived" and f[3] != "string-empty" and not f[1].endswith(("renderer.go", "validator.go")):
                only.add(f[0])
                already[f[0]] = set(x.split("=")[0] for x in f[6].split(",") if x)
    for l in open(os.path.join(surv, "index.tsv")):
        name, f, ln, kind = l.rstrip("\n").split("\t")
        if name in done or (only and name not in only):
            continue
        if kind == "string-empty":
            minus = [x for x in open(os.path.join(surv, name + ".diff")) if x.startswith("-") and not x.startswith("---")]
            if minus and any(w in minus[0] for w in ("Errorf(", "errors.New(", "errorf(")):
                pre.append("\t".join([name, f, ln, kind, "skipped:error-text-only", "0", ""]))
                continue
        q.put((name, f, ln, kind))
    print("to do:", q.qsize(), flush=True)
    lock = threading.Lock()
    out = open(outp, "a")
    for l in pre:
        out.write(l + "\n")
    out.flush()

    def worker(k):
        d = "/tmp/mut/k%d" % k
        repo, verif = d + "/repo", d + "/verif"
        with lock:
            sh(["git", "-C", "/repo", "worktree", "remove", "--force", repo])
            shutil.rmtree(d, ignore_errors=True)
            os.makedirs(verif)
            sh(["git", "-C", "/repo", "worktree", "add", "-q", "--detach", repo, "HEAD"])
        p = subprocess.Popen(["git", "-C", VERIF, "archive", "HEAD", "check", "harness", "regress", "known_findings.json", "properties.jsonl", "tools"], stdout=subprocess.PIPE)
        subprocess.run(["tar", "-x", "-C", verif], stdin=p.stdout, check=True)
        p.wait()
        gm = verif + "/harness/go.mod"
        mod = open(gm).read().replace("=> /repo", "=> " + repo)
        open(gm, "w").write(mod)
        while True:
            try:
                name, f, ln, kind = q.get_nowait()
            except queue.Empty:
                break
            t0 = time.time()
            r = sh(["git", "-C", repo, "apply", "--whitespace=nowarn", os.path.join(surv, name + ".diff")])
            verdict, ran = "survived", []
            if r.returncode != 0:
                verdict = "noapply"
            else:
                order = list(ORDER.get(f, ALL))
                if every:
                    order += [c for c in ALL if c not in order]
                if second:
                    order = [c for c in ALL if c not in already.get(name, ())]
                if forced:
                    order = forced
                for c in order:
                    shutil.rmtree(verif + "/replays", ignore_errors=True)
                    try:
                        r = sh([verif + "/check", c, "quick"], cwd=verif, timeout=1200)
                        code, text = r.returncode, r.stdout
                    except subprocess.TimeoutExpired:
                        code, text = 2, "TIMEOUT"
                    ran.append("%s=%d" % (c, code))
                    if code == 2 and "BUILD-FAILED" in text:
                        verdict = "harness-build-failed"
                        break
                    if code == 1:
                        sub = [l.strip() for l in text.splitlines() if "sub-check:" in l]
                        verdict = "killed:%s:%s" % (c, sub[0].replace("sub-check:", "").strip() if sub else "?")
                        break
            sh(["git", "-C", repo, "checkout", "--", "."])
            with lock:
                out.write("\t".join([name, f, ln, kind, verdict, str(round(time.time() - t0)), ",".join(ran)]) + "\n")
                out.flush()
        with lock:
            sh(["git", "-C", "/repo", "worktree", "remove", "--force", repo])
            shutil.rmtree(d, ignore_errors=True)

    ts = [threading.Thread(target=worker, args=(k,)) for k in range(j)]
    for t in ts:
        t.start()
    for t in ts:
        t.join()
    sh(["git", "-C", "/repo", "worktree", "prune"])
    print("done", flush=True)


if __name__ == "__main__":
    main()
