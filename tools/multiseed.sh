#!/bin/bash
# multiseed.sh <tier> <seed>...   runs every check at each seed, prints one line per run, keeps full logs of non-zero exits
tier=$1; shift
root=$(cd "$(dirname "$0")/.." && pwd)
mkdir -p $root/.build/multiseed
for seed in "$@"; do
  for c in C01 C02 C03 C04 C05 C06 C07 C08 C09 C10 C11 C12 C13 C14 C15 C16; do
    out=$(VERIF_SEED=$seed $root/check $c $tier 2>&1); rc=$?
    echo "seed=$seed $c rc=$rc $(echo "$out" | grep -v KNOWN | tail -1)"
    if [ $rc -ne 0 ]; then echo "$out" > $root/.build/multiseed/$c.$tier.$seed.log; echo "$out" | grep -A3 "sub-check" | head -12; fi
  done
done
