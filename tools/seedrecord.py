#!/usr/bin/env python3
"""seedrecord.py results.json [prefix]  - append the outcome of a tools/variantrun.py run
to seeded/<id>/meta.json (same layout as tools/seedrun.py writes). Variant names are
<prefix><id> (default prefix "s")."""
import json, sys, time, subprocess, os
res = json.load(open(sys.argv[1]))
prefix = sys.argv[2] if len(sys.argv) > 2 else "s"
head = subprocess.run(["git", "-C", "/repo", "rev-parse", "--short", "HEAD"], stdout=subprocess.PIPE, text=True).stdout.strip()
for r in res:
    sid = r["name"][len(prefix):]
    p = "/verif/seeded/%s/meta.json" % sid
    if not os.path.exists(p):
        print("no such seeded change:", sid)
        continue
    m = json.load(open(p))
    ev = {"at": time.strftime("%Y-%m-%d %H:%M:%S"), "repo_head": head, "via": "variantrun", "checks": {}}
    if r.get("error"):
        ev["error"] = r["error"]
    for c, v in r["checks"].items():
        ev["checks"][c] = {"exit": v["exit"], "detected": v["exit"] == 1, "seconds": v["seconds"], "lines": v["lines"][:3]}
    m.setdefault("evaluations", []).append(ev)
    json.dump(m, open(p, "w"), indent=1)
    print(sid, {c: v["exit"] for c, v in r["checks"].items()}, r.get("error", ""))
