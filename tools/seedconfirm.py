#!/usr/bin/env python3
"""seedconfirm.py [-j N] <seeded-dir> ...

Confirms a seeded change without touching /repo: in a scratch worktree of /repo's HEAD
under /tmp/seedconfirm/<dir>/ it runs the demonstration on the unchanged tree (has to
pass), applies patch.diff, runs the repository's own unedited suite (root and fuzz/,
has to pass) and the demonstration again (has to fail), records the outcome in
meta.json ("confirmations") and removes the worktree. The property's check is then run
against the change with tools/variantrun.py."""
import json, os, shutil, subprocess, sys, time
from concurrent.futures import ThreadPoolExecutor
import threading

LOCK = threading.Lock()
ENV = dict(os.environ, GOPROXY='off', GOSUMDB='off', GOTOOLCHAIN='local', GOFLAGS='')
BASE = '/tmp/seedconfirm'


def run(cmd, cwd, **kw):
    return subprocess.run(cmd, cwd=cwd, env=ENV, stdout=subprocess.PIPE, stderr=subprocess.STDOUT, text=True, **kw)


def one(name):
    d = name if os.path.isabs(name) else os.path.join('/verif/seeded', name)
    meta = json.load(open(os.path.join(d, 'meta.json')))
    wt = os.path.join(BASE, os.path.basename(d))
    shutil.rmtree(wt, ignore_errors=True)
    os.makedirs(BASE, exist_ok=True)
    with LOCK:
        r = run(['git', '-C', '/repo', 'worktree', 'add', '-q', '--detach', wt, 'HEAD'], '/repo')
    res = {'at': time.strftime('%Y-%m-%d %H:%M:%S'), 'via': 'seedconfirm (scratch worktree)'}
    try:
        res['repo_head'] = run(['git', 'rev-parse', '--short', 'HEAD'], wt).stdout.strip()
        pkg = os.path.join(wt, meta.get('demo_pkg_dir', '.'))
        demo = os.path.join(pkg, 'zz_seeded_demo_test.go')
        flags = ['-race'] if meta.get('demo_race') else []
        democmd = ['go', 'test', '-vet=off', '-count=1'] + flags + ['-run', meta.get('demo_run', 'TestSeeded'), '.']
        shutil.copy(os.path.join(d, 'demo_test.go'), demo)
        r = run(democmd, pkg)
        res['demo_passes_without_change'] = r.returncode == 0
        os.remove(demo)
        r = run(['git', 'apply', '--whitespace=nowarn', os.path.join(d, 'patch.diff')], wt)
        if r.returncode != 0:
            res['error'] = 'patch does not apply: ' + r.stdout[-300:]
            return name, res
        a = run(['go', 'test', '-vet=off', '-count=1', './...'], wt)
        b = run(['go', 'test', '-vet=off', '-count=1', './...'], os.path.join(wt, 'fuzz'))
        res['suite_passes_with_change'] = a.returncode == 0 and b.returncode == 0
        if not res['suite_passes_with_change']:
            res['suite_tail'] = (a.stdout + b.stdout)[-600:]
        shutil.copy(os.path.join(d, 'demo_test.go'), demo)
        r = run(democmd, pkg)
        res['demo_fails_with_change'] = r.returncode != 0
        res['demo_tail'] = r.stdout[-400:]
    finally:
        with LOCK:
            run(['git', '-C', '/repo', 'worktree', 'remove', '--force', wt], '/repo')
            shutil.rmtree(wt, ignore_errors=True)
            run(['git', '-C', '/repo', 'worktree', 'prune'], '/repo')
    res.setdefault('checks', {}); meta.setdefault('evaluations', []).append(res)
    json.dump(meta, open(os.path.join(d, 'meta.json'), 'w'), indent=1)
    return name, res


def main():
    a = sys.argv[1:]
    j = 4
    if a and a[0] == '-j':
        j = int(a[1]); a = a[2:]
    with ThreadPoolExecutor(max_workers=j) as ex:
        for name, res in ex.map(one, a):
            ok = res.get('demo_passes_without_change') and res.get('suite_passes_with_change') and res.get('demo_fails_with_change')
            print(name, 'CONFIRMED' if ok else 'NOT CONFIRMED', {k: v for k, v in res.items() if k not in ('at', 'via', 'demo_tail')}, flush=True)


if __name__ == '__main__':
    main()
