#!/usr/bin/env python3
"""seedrun.py <seeded-dir> [check ids...]

Applies /verif/seeded/<dir>/patch.diff to /repo, confirms that the repository's own
suite still passes and that the demonstration fails with the change (and passes
without it), runs the named checks (default: the property's own) in the quick tier,
records the outcome in meta.json and ALWAYS restores /repo."""
import json, os, shutil, subprocess, sys, time

d = sys.argv[1]
if not os.path.isabs(d):
    d = os.path.join('/verif/seeded', d)
meta = json.load(open(os.path.join(d, 'meta.json')))
checks = sys.argv[2:] or [meta['property']]
env = dict(os.environ, GOPROXY='off', GOSUMDB='off', GOTOOLCHAIN='local', GOFLAGS='')

def run(cmd, cwd='/repo', **kw):
    return subprocess.run(cmd, cwd=cwd, env=env, stdout=subprocess.PIPE, stderr=subprocess.STDOUT, text=True, **kw)

def suite():
    a = run(['go', 'test', '-vet=off', '-count=1', './...'])
    b = run(['go', 'test', '-vet=off', '-count=1', './...'], cwd='/repo/fuzz')
    return a.returncode == 0 and b.returncode == 0, (a.stdout + b.stdout)[-1500:]

def demo():
    pkg = os.path.join('/repo', meta.get('demo_pkg_dir', '.'))
    dst = os.path.join(pkg, 'zz_seeded_demo_test.go')
    shutil.copy(os.path.join(d, 'demo_test.go'), dst)
    try:
        flags = ['-race'] if meta.get('demo_race') else []
        r = run(['go', 'test', '-vet=off', '-count=1'] + flags + ['-run', meta.get('demo_run', 'TestSeeded'), '.'], cwd=pkg)
        return r.returncode == 0, r.stdout[-1500:]
    finally:
        os.remove(dst)

assert run(['git', 'status', '--porcelain']).stdout.strip() == '', '/repo is not clean'
res = {'at': time.strftime('%Y-%m-%d %H:%M:%S'), 'repo_head': run(['git', 'rev-parse', '--short', 'HEAD']).stdout.strip()}
ok, out = demo()
res['demo_passes_without_change'] = ok
try:
    ap = run(['git', 'apply', os.path.join(d, 'patch.diff')])
    if ap.returncode != 0:
        # the patch was made against an older HEAD of /repo: try a three-way merge
        ap = run(['git', 'apply', '--3way', os.path.join(d, 'patch.diff')])
        run(['git', 'reset', '-q'])
    if ap.returncode != 0:
        res['apply_error'] = ap.stdout[-800:]
        print('PATCH DOES NOT APPLY to /repo HEAD', res['repo_head'], ap.stdout[-400:])
        raise KeyError('apply')
    ok, out = suite()
    res['suite_passes_with_change'] = ok
    if not ok:
        res['suite_output'] = out
    ok, out = demo()
    res['demo_fails_with_change'] = not ok
    res['checks'] = {}
    for c in checks:
        t0 = time.time()
        r = subprocess.run(['./check', c, 'quick'], cwd='/verif', stdout=subprocess.PIPE, stderr=subprocess.STDOUT, text=True)
        viol = [l for l in r.stdout.splitlines() if l.startswith('VIOLATION') or l.strip().startswith('sub-check:') or l.strip().startswith('why:')]
        res['checks'][c] = {'exit': r.returncode, 'detected': r.returncode == 1, 'seconds': round(time.time() - t0, 1), 'lines': [l[:300] for l in viol[:9]]}
        print(c, 'exit', r.returncode, 'in %.0fs' % (time.time() - t0))
        for l in viol[:6]:
            print('   ', l[:260])
except KeyError:
    pass
finally:
    run(['git', 'checkout', '--', '.'])
    run(['git', 'clean', '-fdq', '--', '.'])
    subprocess.run(['git', 'checkout', '--', 'evidence'], cwd='/verif')
    assert run(['git', 'status', '--porcelain']).stdout.strip() == '', '/repo not restored!'
meta.setdefault('evaluations', []).append(res)
json.dump(meta, open(os.path.join(d, 'meta.json'), 'w'), indent=1)
print(json.dumps({k: v for k, v in res.items() if k != 'checks'}))
