#!/bin/bash
# Runs the repository's own pinned suite (both modules of the go.work workspace), unedited, guard off.
export GOPROXY=off GOSUMDB=off GOTOOLCHAIN=local GOFLAGS=
set -e
cd /repo && go test -vet=off -count=1 ./...
cd /repo/fuzz && go test -vet=off -count=1 ./...
cd /repo && git status --short
