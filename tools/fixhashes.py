#!/usr/bin/env python3
"""Rewrites the commit hashes in known_findings.json from the commit subjects (the
subject is the stable key; hashes change if /repo history is rebased)."""
import json, subprocess, re
p = '/verif/known_findings.json'
d = json.load(open(p))
log = subprocess.run(['git', '-C', '/repo', 'log', '--format=%h\t%s'], capture_output=True, text=True).stdout.splitlines()
subj = {l.split('\t', 1)[1]: l.split('\t', 1)[0] for l in log}
for f in d['findings']:
    s = f.get('commit_subject')
    if not s:
        continue
    if s not in subj:
        print("NO COMMIT WITH SUBJECT", s)
        continue
    old = f.get('commit', '')
    f['commit'] = subj[s]
    f['what_fails'] = re.sub(r'^(fixed: property=\S+ )(\S+ )?', lambda m: m.group(1) + subj[s] + ' ', f['what_fails']) if f['what_fails'].startswith('fixed:') else f['what_fails']
json.dump(d, open(p, 'w'), indent=1)
print("ok")
