#!/usr/bin/env python3
"""Rewrites the mutation-experiment summary of DESIGN.md (between the MUTTABLE markers)
from /verif/mutation/stats.json (tools/mutsurvive.py), /verif/mutation/pass1.tsv and
pass2.tsv (tools/mutkill.py) and /verif/mutation/triage.tsv (hand classification of the
survivors: name <tab> class <tab> note)."""
import json, os, collections
M = '/verif/mutation'
stats = json.load(open(M + '/stats.json'))
rows = {}
for fn in sorted(x for x in os.listdir(M) if x.startswith('pass') and x.endswith('.tsv')):
    p = os.path.join(M, fn)
    if not os.path.exists(p):
        continue
    for l in open(p):
        f = l.rstrip('\n').split('\t')
        name, file, line, kind, verdict, secs, ran = (f + [''] * 7)[:7]
        if name in rows and rows[name]['verdict'].startswith('killed'):
            continue
        if name in rows:
            ran = rows[name]['ran'] + ',' + ran
        rows[name] = {'file': file, 'line': line, 'kind': kind, 'verdict': verdict, 'ran': ran}
triage = {}
if os.path.exists(M + '/triage.tsv'):
    for l in open(M + '/triage.tsv'):
        f = l.rstrip('\n').split('\t')
        if len(f) >= 2:
            triage[f[0]] = (f[1], f[2] if len(f) > 2 else '')
byfile = collections.defaultdict(lambda: collections.Counter())
killers = collections.Counter()
for n, r in rows.items():
    v = r['verdict']
    if v.startswith('killed'):
        cls = 'killed'
        killers[v.split(':')[1]] += 1
    elif v.startswith('skipped'):
        cls = 'error text only (not run)'
    elif v == 'survived':
        inconcl = any(x.endswith('=2') for x in r['ran'].split(','))
        cls = 'not killed' + (' (a check ended inconclusive: hang or crash without a captured case)' if inconcl else '')
        if n in triage:
            cls = 'not killed: ' + triage[n][0]
    else:
        cls = v
    byfile[r['file']][cls] += 1
    byfile['ALL'][cls] += 1
classes = sorted({c for f in byfile.values() for c in f})
out = []
out.append('%d mutants generated; %d do not compile, %d are killed by the repository\'s own suite (%d of them by its timeout), **%d survive it**. Of those:' % (
    stats['total'], stats['nocompile'], stats['killed'] + stats['timeout'], stats['timeout'], stats['survived']))
out.append('')
out.append('| source file | ' + ' | '.join(classes) + ' |')
out.append('|---|' + '---|' * len(classes))
for f in sorted(k for k in byfile if k != 'ALL') + ['ALL']:
    out.append('| %s | ' % f + ' | '.join(str(byfile[f][c]) for c in classes) + ' |')
out.append('')
out.append('Killing check (first one that exited 1): ' + ', '.join('%s %d' % (k, v) for k, v in sorted(killers.items())) + '.')
p = '/verif/DESIGN.md'
s = open(p).read()
a, b = '<!-- MUTTABLE:BEGIN -->', '<!-- MUTTABLE:END -->'
s = s[:s.index(a)] + a + '\n' + '\n'.join(out) + '\n' + b + s[s.index(b) + len(b):]
open(p, 'w').write(s)
print('\n'.join(out))
