#!/usr/bin/env python3
"""Rewrites the benign-variant table of DESIGN.md (between the BENIGNTABLE markers) from
/verif/benign/*/meta.json and result.json."""
import json, glob, os, re
rows = []
for d in sorted(glob.glob('/verif/benign/*/meta.json')):
    name = os.path.basename(os.path.dirname(d))
    m = json.load(open(d))
    rp = os.path.join(os.path.dirname(d), 'result.json')
    evs = json.load(open(rp)) if os.path.exists(rp) else []
    first = evs[0]['checks'] if evs else {}
    last = {}
    for e in evs:
        last.update(e['checks'])
    a1 = sorted(c for c, v in first.items() if v['exit'] == 1)
    a2 = sorted(c for c, v in last.items() if v['exit'] != 0)
    summ = re.sub(r'\s+', ' ', m.get('summary', ''))[:260].replace('|', '/')
    obs = re.sub(r'\s+', ' ', m.get('observable', ''))[:200].replace('|', '/')
    rows.append((name, m.get('focus', name[:3]), str(len(first)), ', '.join(a1) or '-', ', '.join(a2) or '-', m.get('suite', '')[:60].replace('|', '/'), summ, obs))
out = ['| variant | focus | checks run | alarms at first run | alarms now | repository suite | what was changed | observable difference |', '|---|---|---|---|---|---|---|---|']
for r in rows:
    out.append('| ' + ' | '.join(r) + ' |')
n = len(rows)
summary = '%d property-preserving variants; %d raised an alarm when first run (all false alarms, corrected in the harness), %d raise one now.' % (n, sum(1 for r in rows if r[3] != '-'), sum(1 for r in rows if r[4] != '-'))
p = '/verif/DESIGN.md'
s = open(p).read()
a, b = '<!-- BENIGNTABLE:BEGIN -->', '<!-- BENIGNTABLE:END -->'
block = a + '\n' + summary + '\n\n' + '\n'.join(out) + '\n' + b
if a in s:
    s = s[:s.index(a)] + block + s[s.index(b) + len(b):]
else:
    s += '\n' + block + '\n'
open(p, 'w').write(s)
print(summary)
