#!/usr/bin/env python3
"""mkregress.py <property> <slug> <sub> <what> <case-json>  -> /verif/regress/<property>-<slug>.json"""
import json, sys, base64
prop, slug, sub, what, case = sys.argv[1:6]
c = json.loads(case)
# convenience: {"text": "..."} becomes base64 input + quoted copy
if "text" in c:
    t = c.pop("text")
    c["input"] = base64.b64encode(t.encode("utf-8", "surrogateescape")).decode()
    c["quoted"] = json.dumps(t)
v = {"property": prop, "stream": "regress", "sub": sub, "msg": what, "case": c, "tier": "quick", "seed": 0}
p = "/verif/regress/%s-%s.json" % (prop, slug)
json.dump(v, open(p, "w"), indent=1)
print(p)
