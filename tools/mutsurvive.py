#!/usr/bin/env python3
"""Step 1 of the mutation-sensitivity experiment: which first-order mutants of /repo's
library source still compile and pass the repository's own (unedited) test suite?

  tools/mutsurvive.py [-j N] [-o outdir]

Each worker owns a scratch git worktree of /repo's HEAD under /tmp/mut/w<k>; a mutant is
written into it, the suite is run (timeout = killed), the file is restored. Survivors are
stored as <outdir>/<file>-<index>.diff with a line in <outdir>/index.tsv. /repo itself is
never touched. The worktrees are removed at the end.
"""
import os, subprocess, sys, shutil, threading, queue, time

VERIF = os.path.dirname(os.path.dirname(os.path.abspath(__file__)))
MUT = os.path.join(VERIF, ".build", "mutate")
FILES = ["parse.go", "render.go", "internal/lex/lex.go", "pkg/driver/base.go", "pkg/driver/postgresql.go",
         "pkg/driver/renderfn.go", "pkg/lucene/expr/renderer.go", "pkg/lucene/expr/validator.go",
         "pkg/lucene/expr/expression.go", "pkg/lucene/expr/operator.go", "pkg/lucene/reduce/reduce.go"]
ENV = dict(os.environ, GOPROXY="off", GOSUMDB="off", GOTOOLCHAIN="local", GOFLAGS="")


def sh(cmd, cwd=None, timeout=None):
    return subprocess.run(cmd, cwd=cwd, env=ENV, stdout=subprocess.PIPE, stderr=subprocess.STDOUT, text=True, timeout=timeout)


def main():
    a = sys.argv[1:]
    j, out = 8, "/tmp/mut/surv"
    while a:
        x = a.pop(0)
        if x == "-j":
            j = int(a.pop(0))
        elif x == "-o":
            out = a.pop(0)
    os.makedirs(out, exist_ok=True)
    sh(["go", "build", "-o", MUT, "./cmd/mutate"], cwd=os.path.join(VERIF, "harness")) if not os.path.exists(MUT) else None
    q = queue.Queue()
    total = 0
    for f in FILES:
        r = sh([MUT, "-list", os.path.join("/repo", f)])
        for line in r.stdout.splitlines():
            idx, ln, kind = line.split("\t")
            q.put((f, int(idx), int(ln), kind))
            total += 1
    lock = threading.Lock()
    stats = {"total": total, "nocompile": 0, "killed": 0, "timeout": 0, "survived": 0}
    index = open(os.path.join(out, "index.tsv"), "a")

    def worker(k):
        wt = "/tmp/mut/w%d" % k
        with lock:
            sh(["git", "-C", "/repo", "worktree", "remove", "--force", wt])
            shutil.rmtree(wt, ignore_errors=True)
            sh(["git", "-C", "/repo", "worktree", "add", "-q", "--detach", wt, "HEAD"])
        while True:
            try:
                f, idx, ln, kind = q.get_nowait()
            except queue.Empty:
                break
            path = os.path.join(wt, f)
            orig = open(path, "rb").read()
            m = subprocess.run([MUT, "-apply", str(idx), os.path.join("/repo", f)], stdout=subprocess.PIPE).stdout
            open(path, "wb").write(m)
            verdict = "survived"
            try:
                r = sh(["go", "build", "./..."], cwd=wt, timeout=120)
                if r.returncode != 0:
                    verdict = "nocompile"
                else:
                    r = sh(["go", "test", "-vet=off", "-count=1", "-timeout", "60s", "./..."], cwd=wt, timeout=150)
                    if r.returncode != 0:
                        verdict = "timeout" if "panic: test timed out" in r.stdout else "killed"
                    else:
                        r = sh(["go", "test", "-vet=off", "-count=1", "-timeout", "60s", "./..."], cwd=os.path.join(wt, "fuzz"), timeout=150)
                        if r.returncode != 0:
                            verdict = "timeout" if "panic: test timed out" in r.stdout else "killed"
            except subprocess.TimeoutExpired:
                verdict = "timeout"
            if verdict == "survived":
                d = sh(["git", "-C", wt, "diff"]).stdout
                name = "%s-%d" % (f.replace("/", "_").replace(".go", ""), idx)
                open(os.path.join(out, name + ".diff"), "w").write(d)
                with lock:
                    index.write("%s\t%s\t%d\t%s\n" % (name, f, ln, kind))
                    index.flush()
            open(path, "wb").write(orig)
            with lock:
                stats[verdict] += 1
                done = sum(v for k2, v in stats.items() if k2 != "total")
                if done % 50 == 0:
                    print(time.strftime("%H:%M:%S"), stats, flush=True)
        with lock:
            sh(["git", "-C", "/repo", "worktree", "remove", "--force", wt])
            shutil.rmtree(wt, ignore_errors=True)

    ts = [threading.Thread(target=worker, args=(k,)) for k in range(j)]
    for t in ts:
        t.start()
    for t in ts:
        t.join()
    sh(["git", "-C", "/repo", "worktree", "prune"])
    print("FINAL", stats, flush=True)
    import json
    json.dump(stats, open(os.path.join(out, "stats.json"), "w"))


if __name__ == "__main__":
    main()
