#!/usr/bin/env python3
"""seedimport.py <Cxx>: copy a sub-agent's deliverables from /tmp/seed/<Cxx>/_seeded into /verif/seeded/<Cxx>-<k>/"""
import json, os, re, shutil, sys
pid = sys.argv[1]
src = '/tmp/seed/%s%s/_seeded' % (os.environ.get('SEED_PREFIX', ''), pid)
for k in (1, 2, 3):
    diff = os.path.join(src, 'change%d.diff' % k)
    if not os.path.exists(diff):
        continue
    dst = '/verif/seeded/%s-%d' % (pid, k + int(os.environ.get('SEED_OFFSET', '0')))
    os.makedirs(dst, exist_ok=True)
    shutil.copy(diff, os.path.join(dst, 'patch.diff'))
    demo = open(os.path.join(src, 'demo%d_test.go' % k)).read()
    open(os.path.join(dst, 'demo_test.go'), 'w').write(demo)
    try:
        meta = json.load(open(os.path.join(src, 'meta%d.json' % k)))
    except Exception as e:
        meta = {'property': pid, 'summary': 'meta file unreadable: %s' % e}
    meta['property'] = pid
    meta['demo_run'] = 'TestSeeded%s_%d' % (pid, k)
    m = re.search(r'^package (\w+)', demo, re.M)
    meta['demo_package'] = m.group(1) if m else '?'
    meta.setdefault('demo_pkg_dir', '.')
    if 'race' in json.dumps(meta).lower() and pid == 'C14':
        meta['demo_race'] = True
    meta['origin'] = 'independent sub-agent given only the property text and a scratch worktree of /repo'
    json.dump(meta, open(os.path.join(dst, 'meta.json'), 'w'), indent=1)
    print(dst, '|', meta.get('summary', '')[:160])
