#!/usr/bin/env python3
"""Run the quick checks against variants of /repo in parallel, without touching /repo.

  tools/variantrun.py [-j N] [-c C01,C02,...] [-o results.json] name=patch.diff ...

For every variant a scratch sandbox /tmp/variant/<name>/ is made: `repo` is a detached
git worktree of /repo's HEAD with the patch applied, `verif` a copy of the committed
files of /verif whose harness go.mod points at that worktree. The checks run there
(VERIF_SEED is passed through), exit codes and VIOLATION lines are collected, and the
sandbox is removed again. Used for the false-alarm experiment (variants on which every
property still holds: every check has to stay silent) - see DESIGN.md section 8.
"""
import json, os, shutil, subprocess, sys, time
from concurrent.futures import ThreadPoolExecutor
import threading

GITLOCK = threading.Lock()

VERIF = os.path.dirname(os.path.dirname(os.path.abspath(__file__)))
BASE = "/tmp/variant"
ALL = ["C%02d" % i for i in range(1, 17)]


def run(cmd, cwd=None, env=None, timeout=None):
    return subprocess.run(cmd, cwd=cwd, env=env, stdout=subprocess.PIPE, stderr=subprocess.STDOUT, text=True, timeout=timeout)


def one(name, patch, checks):
    d = os.path.join(BASE, name)
    shutil.rmtree(d, ignore_errors=True)
    os.makedirs(d)
    repo, verif = os.path.join(d, "repo"), os.path.join(d, "verif")
    res = {"name": name, "patch": patch, "checks": {}}
    try:
        with GITLOCK:
            r = run(["git", "-C", "/repo", "worktree", "add", "-q", "--detach", repo, "HEAD"])
        if r.returncode != 0:
            res["error"] = "worktree: " + r.stdout
            return res
        if patch:
            r = run(["git", "-C", repo, "apply", "--whitespace=nowarn", os.path.abspath(patch)])
            if r.returncode != 0:
                r = run(["git", "-C", repo, "apply", "--3way", "--whitespace=nowarn", os.path.abspath(patch)])
            if r.returncode != 0:
                res["error"] = "PATCH DOES NOT APPLY: " + r.stdout[-400:]
                return res
        os.makedirs(verif)
        p = subprocess.Popen(["git", "-C", VERIF, "archive", "HEAD", "check", "harness", "regress", "known_findings.json", "properties.jsonl", "tools"], stdout=subprocess.PIPE)
        subprocess.run(["tar", "-x", "-C", verif], stdin=p.stdout, check=True)
        p.wait()
        gm = os.path.join(verif, "harness", "go.mod")
        s = open(gm).read().replace("=> /repo", "=> " + repo)
        open(gm, "w").write(s)
        env = dict(os.environ)
        for c in checks:
            t0 = time.time()
            try:
                r = run([os.path.join(verif, "check"), c, "quick"], cwd=verif, env=env, timeout=1500)
                out, code = r.stdout, r.returncode
            except subprocess.TimeoutExpired as e:
                out, code = (e.stdout or "") + "\nTIMEOUT", 2
            lines = [l[:400] for l in out.splitlines() if l.startswith(("VIOLATION", "KNOWN-FINDING", "BUILD-FAILED", "INCONCLUSIVE", "SHORT-COUNT")) or "sub-check:" in l or l.lstrip().startswith("why:")]
            res["checks"][c] = {"exit": code, "seconds": round(time.time() - t0), "lines": lines[:12]}
            if code != 0:
                os.makedirs(os.path.join(BASE, "_logs"), exist_ok=True)
                open(os.path.join(BASE, "_logs", "%s.%s.log" % (name, c)), "w").write(out)
                rp = os.path.join(verif, "replays")
                if os.path.isdir(rp):
                    for f in os.listdir(rp):
                        shutil.copy(os.path.join(rp, f), os.path.join(BASE, "_logs", "%s.%s" % (name, f)))
    finally:
        with GITLOCK:
            run(["git", "-C", "/repo", "worktree", "remove", "--force", repo])
            shutil.rmtree(d, ignore_errors=True)
            run(["git", "-C", "/repo", "worktree", "prune"])
    return res


def main():
    a = sys.argv[1:]
    j, checks, outp, items = 4, ALL, None, []
    while a:
        x = a.pop(0)
        if x == "-j":
            j = int(a.pop(0))
        elif x == "-c":
            checks = a.pop(0).split(",")
        elif x == "-o":
            outp = a.pop(0)
        else:
            n, _, p = x.partition("=")
            items.append((n, p))
    results = []
    with ThreadPoolExecutor(max_workers=j) as ex:
        for r in ex.map(lambda it: one(it[0], it[1], checks), items):
            results.append(r)
            bad = {c: v["exit"] for c, v in r["checks"].items() if v["exit"] != 0}
            print(r["name"], r.get("error", ""), "non-zero:", bad or "none", flush=True)
            if outp:
                json.dump(results, open(outp, "w"), indent=1)
    if outp:
        json.dump(results, open(outp, "w"), indent=1)


if __name__ == "__main__":
    main()
