claim("C16",
      "exhaustive byte strings + rapid strings + model-based Peek/Next histories (rapid state machine) against an input-reconstruction oracle",
      "Every byte string of length <=4 (quick) / <=5 (thorough) over two byte alphabets (16 bytes: quotes, slash, escape, wildcard, colon, bracket, whitespace, two multi-byte runes; 21 bytes: number syntax, every one-character operator, range brackets, three illegal characters) is lexed and checked against the input itself (prefix reconstruction with whitespace skipping, rune-boundary, Peek/Peek/Next agreement with an unpeeked twin lexer, EOF stickiness, error tokens only where the harness's own scanner sees a lexical error, Parse rejects); every emitted token must start with a character that can start a token; plus random byte / rune / hostile / low-byte-aliasing strings, printed queries with injected lexical errors, and random interleavings of Peek and Next checked against the token list of an unpeeked twin. Held on everything explored; not a proof for longer inputs.",
      "Trusts Go's utf8/unicode tables, rapid, and the harness's 20-line scanner for what counts as a lexical error. Token kinds and exact boundaries are deliberately not specified.",
      "DESIGN.md section 4, C16")
claim("C01",
      "exhaustive token-sequence enumeration + rapid trees/strings + adversarial big shapes under recover and a watchdog",
      "Every token sequence up to a stated length over the alphabets (37-token full, 22-token class-reduced, four 10/11-token focus alphabets incl. comparisons) plus the range frames (token sequences around one complete range), random printed trees in all layouts, single hostile terms, random bytes / hostile fragments / token soups, and about 40 adversarial shapes of thousands of tokens, each with and without a default field, are pushed through Parse, ToPostgres, ToParameterizedPostgres, String, %#v and json.Marshal; any panic, any %! marker (unless the query or the default field itself contains the two bytes %!) and any call on a small input that does not return within 20 s is a violation. Growth ratios on doubling are recorded as evidence for 'polynomial', not used as a verdict.",
      "Absence of panics is shown only for the explored inputs. 'Polynomial time' is evidenced (growth table), only hangs are decided. Native fuzzing (thorough) is not seedable.",
      "DESIGN.md section 4, C01")
claim("C10",
      "same input population as C01 against an xor-of-results oracle and an independent shape predicate",
      "For every enumerated / generated input: Parse returns exactly one of (tree, error); accepted trees pass expr.Validate and the harness's own recursive shape predicate (which also enters range boundaries and list elements); ToPostgres returns non-empty SQL xor an error; parameterized SQL is empty on error; both renderers fail whenever Parse fails.",
      "The shape predicate is the harness's reading of the property text (trusted base). Trees built by hand through the constructors are out of scope.",
      "DESIGN.md section 4, C10")
claim("C05",
      "exhaustive tree enumeration + rapid trees; precedence printer -> Parse -> DeepEqual",
      "All query trees of operator depth <= 2 over 14 leaf forms (quick; depth <= 3 over 3 leaves in thorough) and random deeper trees are printed with parentheses exactly where the documented table requires them (also with redundant and full parenthesisation and random whitespace); Parse must return a tree deep-equal to the one built from the same generator value through the public constructors. A per-(outer, inner, position) histogram shows which precedence cells were exercised.",
      "The printer is the executable form of the documented table (trusted); expr constructors are trusted; NOT NOT a, +NOT a and a^2~3 are printed with parentheses because the table does not say they may be written bare.",
      "DESIGN.md section 4, C05")
claim("C07",
      "exhaustive trees x all subsets of AND nodes; metamorphic pair explicit-AND text vs juxtaposed text",
      "For every enumerated / generated tree every non-empty subset of its AND nodes (<= 6) is written as whitespace; if the juxtaposed text parses, the explicit text must parse to the identical tree, and the juxtaposed text must be accepted whenever the explicit one is (gaps after an argument-less ~ or ^ are excluded unless NOT follows: the next term would be the operator's number).",
      "Gaps after an argument-less ~ or ^ are excluded (the next term is that operator's number by grammar). C05 vouches for the explicit reading.",
      "DESIGN.md section 4, C07")
claim("C09",
      "exhaustive token sequences x layout variants; rapid trees x parenthesis variants; metamorphic Parse pairs",
      "Every token sequence up to a stated length and random (also mutated, almost-valid) sequences are compared with whitespace / keyword-case variants: equal acceptance and identical trees. Printed trees (explicit and juxtaposed) are compared with variants carrying redundant parentheses around the whole query, operands of explicit operators (including the number written after ~ or ^), group bodies and field values: the variant must parse to the identical tree. Both default-field modes.",
      "Whitespace is only changed at harness token boundaries and only removed where one neighbour is a one-character symbol other than '-'.",
      "DESIGN.md section 4, C09")
claim("C06",
      "exhaustive token-sequence enumeration + mutated prints; derivation matcher over every accepted input",
      "Every token sequence up to a stated length over the full alphabet and over focus alphabets (Boolean/grouping, ranges/brackets, unary operators) and the range frames (a : + 5 tokens, a : [ b TO + 1..4 tokens, a : [ + 1..3 tokens + TO c ]), random printed trees and their 1-3-token mutations, with and without a default field: whenever Parse accepts, a memoised matcher must find a derivation of the harness's token sequence from the returned tree in the documented grammar (each term token exactly one typed leaf, in order; each operator token consumed by one node of the matching kind; brackets pair around non-empty groups).",
      "The matcher is the trusted executable grammar; precedence is ignored (any derivation counts) so C06 cannot raise C05/C07 alarms; token meanings come from construction or from the harness's value-decoding spec M1.",
      "DESIGN.md section 4, C06")
claim("C11",
      "exhaustive token sequences + printed/mutated trees; metamorphic pair Parse(q) vs Parse(q, WithDefaultField(f))",
      "For every enumerated / generated query (incl. 48 unusual ways to write one term - ill-formed regexps, wildcard / number / keyword look-alikes, field-less ranges - in 19 operand and value positions) and a default-field name that does not occur in it: acceptance is the same with and without the option; erasing every f: scoping from the scoped tree gives exactly the unscoped tree; no bare term remains in operand position; f never appears inside another field's value, range bound or list.",
      "The erase / bare-term / re-scoping walks are harness code (trusted). Queries that use f explicitly are outside the property.",
      "DESIGN.md section 4, C11")
claim("C12",
      "rapid trees with JSON-hostile values + accepted part of the exhaustive enumeration; encode/decode round trip against the original tree",
      "Every accepted valid-UTF-8 query generated (all operators, leaf forms, hostile strings incl. empty / non-ASCII / \"min\": / * ? / slashes, int edges above 2^53, decimals, NaN-like words, boost and fuzzy parameters) is encoded, decoded, validated, shape-checked, re-encoded (byte-identical), printed and rendered inline and parameterized (identical incl. errors); deep equality is required unless the tree holds one of the three exempted leaf forms, whose rate is reported.",
      "encoding/json and reflect.DeepEqual are trusted; queries with invalid UTF-8 are outside the property.",
      "DESIGN.md section 4, C12")
claim("C13",
      "exhaustive small documents + rapid schema-aware / corrupted documents + byte-mutated encodings; no-panic oracle with Validate as the guard",
      "Every scalar of a 42-entry pool in every slot of 26 operator templates, rapid schema-aware documents (well-formed and member-corrupted), byte mutations of real encodings and nesting to 2000 levels are decoded under recover; whenever decoding succeeds and Validate passes, String, %#v, json.Marshal, Render and RenderParam must each return normally. The decoded+validated population (the one that exercises clause 2) is counted separately.",
      "Nothing is asserted about what the operations return. encoding/json is trusted. Nesting beyond 2000 levels would test the Go runtime's stack, not this code.",
      "DESIGN.md section 4, C13")
claim("C15",
      "rapid + enumerated trees x render-function maps; tracing fold (call log laid over the tree); model-based driver-isolation histories (rapid state machine)",
      "For generated and hand-built trees and, for every operator, a tracing map / single-operator override / removed / failing function: the call log must be exactly the bottom-up fold of the tree with the supplied functions (one call per node, right operator, children before parents, arguments are the children's results in at most one pair of parentheses, containers in order, root result returned); an override changes output only at that operator's nodes; a missing function yields an error and empty output iff the operator occurs; a tree with any one node replaced by the zero Expression (operator registered nowhere) fails with empty output under every map; with leaf functions that all return the same text every LIST function still receives one item per value; the stock renderers fail on every query containing ~ or ^. A state machine creates, customises and strips drivers in random order: each must keep rendering like a private model of its own map, the stock renderers must keep refusing ~ and ^ and driver.Shared must stay as it was.",
      "The fold checker is harness code (trusted). Values containing the tracer's marker runes are skipped.",
      "DESIGN.md section 4, C15")
claim("C14",
      "seeded stress over a (goroutines x GOMAXPROCS) grid under the race detector; differential against a sequential run + snapshots",
      "A seed-determined corpus (generated queries, the repository's inputs, and queries whose field name is a number other queries use as a value) is parsed once into shared expressions; goroutines behind a barrier run seed-determined operation sequences over shared and private inputs (also a shared custom driver). Every concurrent result must equal the sequential result, three sequential runs must agree, shared trees must be deep-equal to copies taken before use, and the -race build must report nothing. The number of truly overlapping operation pairs on shared inputs is measured and reported.",
      "The harness does not own the Go scheduler: interleavings are sampled; a race needs both conflicting accesses to execute (in any order) to be flagged. A schedule-dependent failure may not reproduce from the replay file, which therefore carries the history / race report.",
      "DESIGN.md section 4, C14")
claim("C02",
      "rapid hostile-content trees + exhaustive short token sequences + back-to-back (default field, query) splits; PostgreSQL's own scanner/grammar (pg_query) + whitelist walk + provenance sets",
      "Every rendered SQL text (inline and parameterized) of generated queries whose field names and values come from a hostile pool (quotes, backslashes, ;, --, /* */, $1, ?, NaN, NUL, invalid UTF-8, > 63-byte names; written quoted and as escaped bare words) is scanned and parsed by libpg_query inside SELECT 1 FROM t WHERE (...): one statement, nothing but the WHERE filled in, no comment / separator / unbalanced parenthesis, only whitelisted node kinds, placeholders == parameters, every column a field name of the query (or the default field), every string constant / parameter a value of the query.",
      "libpg_query v15 is PostgreSQL's grammar (trusted). Numeric constants are not tied to the query text here. Conditional on render success.",
      "DESIGN.md section 4, C02")
claim("C08",
      "hostile-pool strings x {quoted, escaped} x 12 positions; oracle is the value itself, with PostgreSQL's literal decoder as the judge of the SQL constant",
      "Every hostile-pool entry (alone, letter-prefixed, letter-suffixed) every string of 1..2 (thorough 1..3) characters over a 34-character alphabet of Lucene / SQL specials, and random hostile strings up to 10^4 bytes are written between double quotes and as fully escaped bare words at 12 positions (f:v, bare, f:>=v, both range bounds, list element, under NOT/+/-, after AND, field group, field name); the tree leaf, the constant PostgreSQL decodes from the inline SQL at that position and the parameter at the expected index must each equal the value byte for byte.",
      "Single-quoted phrases and values containing '\"' (quote clause) or numeric / keyword-looking values (escape clause) are outside the property. One open finding (F15: \"*\" as a range boundary) is excluded by signature and announced.",
      "DESIGN.md section 4, C08")
claim("C03",
      "exhaustive + rapid fragment trees x probe rows; query-meaning evaluator vs evaluator over PostgreSQL's AST of the rendered SQL",
      "Queries of the filterable fragment over 1-4 typed fields (all leaf forms x bound kinds x inclusivity, AND/OR/NOT/+/-/parentheses, depth <= 5; every depth <= 1 tree (thorough: <= 2) over one leaf per form) must render; the rendered text is parsed by libpg_query, whitelisted, and evaluated on probe rows that hit every region cut out by the query's constants (c, c+-1, midpoints, c+-0.005/0.0005, string neighbours, pattern instantiations and near misses); the truth value must equal the query's meaning, written from the property text. Four open findings (F16-F19) and F15 are excluded by leaf signature, counted and announced.",
      "Finite probing decides the query because both sides are Boolean combinations of threshold / equality / pattern atoms over the probed constants (patterns are probed, not decided). NULLs and collations are outside the property.",
      "DESIGN.md section 4, C03")
claim("C04",
      "exhaustive + rapid renderable trees with a same-kind value re-assignment; differential inline vs parameterized through PostgreSQL's grammar",
      "For every renderable generated query (all leaf forms incl. bare terms, regexps of every length, one-character patterns, quoted *, open and mixed-type ranges, mixed lists, every pair of 16 awkward quoted strings (trailing backslash, commas, apostrophes) as range bounds under field names that need quoting; default field on/off): parameterized rendering succeeds whenever inline does; placeholders == parameters; the parameter list is the generator's left-to-right value list with Go kinds; inline SQL and parameter-substituted SQL have the same normal form or agree on all probe rows (an inline text PostgreSQL cannot read next to a readable parameterized one is a violation); re-assigning values of the same kinds leaves the SQL text byte-identical.",
      "The expected parameter list comes from the print plan, not from the parser. F15 (\"*\" as a range boundary) is excluded by signature.",
      "DESIGN.md section 4, C04")
