claim("C16",
      "exhaustive byte strings + rapid strings against an input-reconstruction oracle",
      "Every byte string of length <=4 (quick) / <=5 (thorough) over a 14-byte alphabet that reaches every lexer branch is lexed and checked against the input itself (prefix reconstruction with whitespace skipping, rune-boundary, Peek/Peek/Next agreement with an unpeeked twin lexer, EOF stickiness, error tokens only where the harness's own scanner sees a lexical error, Parse rejects); plus random byte/rune/hostile strings and printed queries with injected lexical errors. Held on everything explored; not a proof for longer inputs.",
      "Trusts Go's utf8/unicode tables, rapid, and the harness's 20-line scanner for what counts as a lexical error. Token kinds and exact boundaries are deliberately not specified.",
      "DESIGN.md section 4, C16")
